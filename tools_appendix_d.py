#!/usr/bin/env python3
"""Regenerates Appendix D of DESIGN.md from the sweep result files:
mutants/results-mutants-final.txt, mutants/results-seeded-final.txt and seeded/*/meta.json."""
import json, re, os, sys

def parse(path):
    rows = {}
    if not os.path.exists(path):
        return rows
    for line in open(path):
        m = re.match(r'(\S+) (C\d+) exit=(\d+) t=(\d+)s \| ?(.*)', line.strip())
        if m:
            patch, cid, rc, t, msg = m.groups()
            rows.setdefault(patch, []).append((cid, int(rc), int(t), msg))
        elif 'APPLY-FAILED' in line or 'BUILD-FAILED' in line:
            rows.setdefault(line.split()[0], []).append(('-', 2, 0, line.strip()))
    return rows

def short(msg, n=150):
    msg = re.sub(r'^failure \([^)]*\): ', '', msg)
    msg = msg.replace('|', '/')
    return (msg[:n] + '...') if len(msg) > n else msg

mut = parse('/verif/mutants/results-mutants-final3.txt')  # the sweep with the final machinery
def merged(path):
    # within one file a later line for the same (patch, check) supersedes an earlier one
    rows = {}
    for patch, rs in parse(path).items():
        last = {}
        for c, rc, t, m in rs:
            last[c] = (c, rc, t, m)
        rows[patch] = list(last.values())
    return rows
seed = merged('/verif/mutants/results-seeded-round3.txt')
for k, v in parse('/verif/mutants/results-seeded-final.txt').items():
    seed[k] = v  # the final sweep of rounds 1-3a supersedes earlier runs
for k, v in merged('/verif/mutants/results-seeded-round4.txt').items():
    seed[k] = v
for k, v in merged('/verif/mutants/results-seeded-round5.txt').items():
    seed[k] = v
for k, v in merged('/verif/mutants/results-seeded-round6.txt').items():
    seed[k] = v
for k, v in merged('/verif/mutants/results-seeded-round7.txt').items():
    seed[k] = v
for k, v in merged('/verif/mutants/results-seeded-round8.txt').items():
    seed[k] = v
for k, v in merged('/verif/mutants/results-seeded-round9.txt').items():
    seed[k] = v
for k, v in merged('/verif/mutants/results-seeded-lib.txt').items():
    seed[k] = v
for k, v in merged('/verif/mutants/results-seeded-round10.txt').items():
    seed[k] = v
for k, v in merged('/verif/mutants/results-seeded-round11.txt').items():
    seed[k] = v
for k, v in merged('/verif/mutants/results-seeded-round12.txt').items():
    seed[k] = v
for k, v in merged('/verif/mutants/results-seeded-round13.txt').items():
    seed[k] = v
for k, v in merged('/verif/mutants/results-seeded-round14.txt').items():
    seed[k] = v

out = []
out.append("## Appendix D. Sensitivity results: own mutants and independently seeded changes\n")
out.append("All runs below use the **quick** tier, `VERIF_SEED` unset (0), in an isolated scratch copy of `/repo` and of the harness (`mutants/sweep.sh`). `exit=1` means the check printed a `VIOLATION` line with a shrunk replay file; the time includes the incremental rebuild of the changed repository crates (10-40 s) and shrinking. The raw lines are in `mutants/results-mutants-final3.txt` (own mutants, re-run against the machinery as widened by seeding round 13; identical verdicts to the earlier `results-mutants-final2.txt`) and `mutants/results-seeded-*.txt`.\n")

# ---- own mutants ------------------------------------------------------------------------------------
out.append("### D.1 Own mutants (65 patch files, `mutants/catalogue-all.txt`)\n")
out.append("| Mutant | Reported by (time) | Not reported by | First failure line (shortened) |")
out.append("|---|---|---|---|")
n_mut = n_caught = 0
for line in open('/verif/mutants/catalogue-all.txt'):
    line = line.strip()
    if not line or line.startswith('#'):
        continue
    patch = line.split()[0]
    rs = mut.get(patch, [])
    n_mut += 1
    hit = [f"{c} ({t} s)" for c, rc, t, _ in rs if rc == 1]
    miss = [c for c, rc, t, _ in rs if rc == 0]
    infra = [c for c, rc, t, _ in rs if rc == 2]
    if hit:
        n_caught += 1
    first = next((short(m) for c, rc, t, m in rs if rc == 1), '')
    out.append(f"| `{patch[:-5]}` | {', '.join(hit) or '-'} | {', '.join(miss + [i + ' (exit 2)' for i in infra]) or '-'} | {first} |")
out.append("")
out.append(f"{n_caught} of {n_mut} mutants are reported by at least one check. The ones that are not reported turned out not to violate the property they were written for: `c05-reserved-amount-0` makes every first provision fail (cw20-base refuses the zero mint), so no pair ever gets liquidity and C05 holds vacuously (none of the twenty properties demands that a first provision can succeed); `c13-intermediate-hop-carries-to` makes every multi-hop route revert (the second hop finds the router empty), so no accepted route misbehaves. (`c11-compare-against-sender` - the assertion measures the sender's growth - was long counted as equivalent because it only seemed to make the router stricter; since routes may name the router itself as recipient, C11 reports it: with m = 0 the route succeeds while the recipient's balance of the final asset falls.) Columns 'Not reported by' list checks of *other* properties that were run for observation; a mutant of the swap formula that pays less (`c01-offer-not-subtracted`) is, correctly, not a C01/C03 violation but a C06/C12 one.\n")
out.append("Mutants that were first **missed** and led to a stronger generator or oracle (then re-run): `c14-ownership-compare-former-too` (the ownership-transfer message now varies its code-id fields), `c13-accept-two-dangling` (router worlds now donate to the router, so a disconnected hop can execute), `c13-last-hop-drops-recipient-on-long-routes` (written after `c13-intermediate-hop-carries-to` proved equivalent).\n")

# ---- seeded -----------------------------------------------------------------------------------------
out.append("### D.2 Independently seeded changes (`seeded/<ID>/`, `<ID>b` ... `<ID>m`: ten to eleven per property, three more for the library properties C08 and C18)\n")
out.append("Each change was produced by a fresh sub-agent that was given only the text of one property and its own scratch git worktree of `/repo` (nothing from `/verif`), and asked for a change that breaks the property, still compiles, keeps the existing 101 tests green and needs something specific to manifest, plus a demonstration test. Round 2 (`<ID>b`) and round 3 (`<ID>c`) agents were additionally told in one line each what the earlier changes for the same property were, and asked for something materially different. Round 4 (`<ID>d`) agents additionally got a *code location* to use, chosen among the places no earlier change had touched (`seeded/_prompts/hints_d1.json`, `hints_d2.json`; the prompt generator is `seeded/_prompts/gen_task.py`). Round 5 (`<ID>e`) agents got a *style* of slip instead (error-handling default, off-by-one, stale state, asset-order or asset-kind confusion, optional-parameter default; `hints_e1.json`, `hints_e2.json`). Every change was confirmed by `seeded/verify.sh` (demonstration passes on the clean tree, fails with the patch; the 101 existing tests pass with the patch alone) before it was kept.\n")
out.append("| Seeded change | What it needs to manifest | Reported by (time) | Also run, not reporting it | Note |")
out.append("|---|---|---|---|---|")
ids = sorted(d for d in os.listdir('/verif/seeded') if os.path.isdir(f'/verif/seeded/{d}') and not d.startswith('_'))
n_seed = n_seed_caught = n_seed_own = 0
for k in ids:
    m = json.load(open(f'/verif/seeded/{k}/meta.json'))
    rs = seed.get(f'/verif/seeded/{k}/patch.diff', [])
    n_seed += 1
    hit = [f"{c} ({t} s)" for c, rc, t, _ in rs if rc == 1]
    miss = [c for c, rc, t, _ in rs if rc == 0]
    if hit:
        n_seed_caught += 1
    if any(c == k[:3] and rc == 1 for c, rc, t, _ in rs):
        n_seed_own += 1
    needs = short(m.get('needs_to_manifest', '').replace('\n', ' '), 230)
    note = ''
    oc = m.get('outcome', '')
    if 'MISSED' in oc or 'INITIALLY' in oc:
        note = short(oc.replace('\n', ' '), 330)
    out.append(f"| `{k}` | {needs} | {', '.join(hit) or '-'} | {', '.join(miss) or '-'} | {note} |")
out.append("")
out.append(f"{n_seed_caught} of {n_seed} seeded changes are reported by at least one check, {n_seed_own} of them by the check of the very property they were written to break (final machinery, quick tier). Forty-two changes were first missed, or not detected for an infrastructure reason, and each miss was answered by widening a generator or correcting an oracle - never by special-casing the change:\n")
out.append("""* `C01` (swap refunds surplus coins it had priced on): the swap generators never attached a coin of the pair's *other* native denom of reserve-like size -> `extra_ask_16` class in every swap profile.
* `C14` (router `Receive` re-enters `execute` with the envelope's sender): the caller matrix only sent internal messages directly -> every pair/router message is also smuggled through the public cw20 `Receive` entry with a spoofed envelope sender.
* `C07b` (cw20-entered route without `to` pays the token contract): the C07 frame wrongly allowed the addressed token contract's own balances to change -> removed.
* `C20b` (decimals re-registration corrupts the pair's LP-token record, blocking withdrawals): no history contained owner administration -> re-registration / config update / migration operations in the history profiles; C17 now compares the whole factory record with the pair's self-description.
* `C15b` (guard gets message-order deposits; the helper's signature changed): the harness no longer compiled -> every call of an internal helper sits behind its own cargo feature (`harness/src/direct.rs`) and `./check` rebuilds without a shim that does not compile; the system-level suite reports the change.
* `C16b` (allow-list keyed by a case-normalised denom): all generated denoms were lower case -> unregistered look-alikes of a registered denom (upper case, capitalised, suffixed) in the asset universe.
* `C17c` (slot test by rendered spelling instead of asset kind): no world held a native denom spelled like a cw20 contract address (F12 had excluded that spelling everywhere because of the router's route-shape map) -> factory-only worlds (C16, C17, C19) now hold such a denom in a quarter of the worlds with a token, and C17's re-registrations prefer it when the same-spelled token is paired.
* `C12c` (the pair's simulation queries match the offered asset by rendered spelling): reported only because the history worlds had just been widened the same way for `C17c` (one world in eight of the non-route profiles names a native denom like the first cw20 token's address; half of those pair the two). That widening also exposed an error of the *harness* - `swap_events` identified the offered side from the event's display string - which raised false alarms for C01/C03/C06 on the unchanged tree until it was corrected to use the movement of the cw20 reserve.
* `C02d` (a router hop attaches every coin of the pair's denoms it holds, so an un-priced coin of the ask denom enters the pair): reported by C13 but not by C02, which judged only direct and hook swaps -> new suite `C02/routed_settlement`: per pair, the reserve movements of a router transaction must equal the pair's own swap reports; native-entry routes now sometimes attach a further coin (C13 excludes those from its pass-through statement, C11 nets them).
* `C16d` (creation reuses decimals cached from the previous creation): reported by C17 but not by C16, whose histories had no re-registration between creations -> added as an operation kind of C16.
* `C19d` (listing cursor folded to lower case): every factory-world denom was lower case -> the denom pool holds three names with upper-case letters.
* `C14e` (the router's self-only check compares the two addresses only over their common length): no role's address *extended* an authorised sender -> every cell now also probes addresses that extend or shorten an authorised sender of that cell. (An upper-cased variant was added too and immediately withdrawn: it alarmed on the unchanged tree, because the chain API - cosmwasm's `MockApi`, like bech32 - treats the casings of one address as the same account. That was an error of the harness, not of the factory.)
* `C07f` (withdraw hook accepted from an asset token, whose total supply then serves as the LP supply): every world gave each holder 2^122 of every token, so any proportion of a token's supply was zero -> holders' balances are now drawn from {2^122, 2^64, 2^36}, and the forged-call generator delivers the withdraw hook through an asset token's `Send`.
* `C15f` (the 128-bit to 256-bit decimal conversion wraps the whole part modulo 2^64): tolerances, spread limits and belief prices never exceeded about 10^3 -> the guard generators of C10 and C15 span the full 128-bit decimal and include whole parts that are multiples of 2^64.
* `C19f` (MigratePair re-keys and thereby deletes the registry entry of a registered pair): no factory-world history migrated a pair -> MigratePair is an operation kind of C16 and part of C19's pre-listing administration.
* `C01f` (asset equality ignores the asset kind): reported by C02 and C03 at once but not by C01, whose swap profile drew the needed shape - a direct swap naming and attaching the native denom spelled like a cw20 asset of the pair - too rarely -> explicit kind-flipped naming shapes for swaps and provisions.
* `C09f` (a provision listing one asset twice gets the second amount credited as the other, native, deposit): no *named* native amount differs from the attached funds, so C09's comparison held, while the statement's consequence - the pool never credits native value that was not attached - is broken -> C09 now bounds the LP minted by any successful provision into a live pool by what the attached coin of each native side justifies (m * r_i <= attached_i * S).
* Round 7 found five more blind spots, all of them missing *administrative or environmental states* rather than missing user operations: `C09g` (denom case folded in the attached funds: no actor held an upper-case look-alike coin -> every holder does now, and the funds games deliver the named amount under it), `C11g` (a route whose recipient is the router itself -> now a possible recipient), `C14g` (an authorisation window opened by migrating a pair -> a third of C14's states migrate every pair and the factory, and half of the probed decimals messages replicate the factory's own push), `C17g` (updates skipped for pairs on another code id -> the pair code is stored twice, histories migrate pairs to the second code id and switch the factory's default), `C19g` (the factory's own migrate entry point truncates the registry -> the owner is the factory's chain-level admin and the histories migrate the factory).
* Round 8: `C02h` (an invalid `to` silently replaced by the sender -> swap receivers now include malformed strings), `C12h` (the offer is no longer netted out when any further coin is attached -> swaps and provisions sometimes carry a stray coin of a non-pair denom, and the quote-vs-execution oracle no longer skips such swaps). `C18h` exposed an oracle that was *stricter than the statement* (it reported any accepted numeral containing a non-digit as such, which would have flagged a correct leniency feature too): separators, sign and white space are now read as formatting.
* Round 9 (stealth): `C11i` (the recipient's own attached coins refunded before the assertion and so counted as proceeds -> C11 also runs the route without the further coins on a fork), `C15i` (the guard judged against the caller's own deposits while the supply is zero -> C15 now builds and judges first mints into donated reserves), `C16i` (looked-up decimals clamped to 18 -> native decimals of 19..255 in the factory worlds). `C14i` is the kind-blind asset equality once more, filed under C14 by its author with an explicit caveat; C02 reports it, C14's matrix rightly has nothing to flag.
* `C18i` (the serde visitor newly accepts bare JSON numbers and reads an integer token as atomics): numerals reached the JSON readers only as JSON strings -> every generated numeral that is also a JSON number token is fed unquoted too.
* Round 10 (ten properties, asked for mechanisms unlike the nine earlier attempts): `C09m` (completeness of the attached coins settled by *counting* matching coins, so a repeat of one named coin stands in for the missing other one: no generated coin list repeated a denom - a chain refuses such a list before any contract runs, the test chain does not -> one funds game now builds exactly that shape, whose verdict does not depend on how a repeat is counted) and `C16m` (the factory normalises cw20 addresses after its same-asset guard, so `[contract2, CONTRACT2]` registers a pair of one token with itself: every cw20 asset was named by one spelling -> C16 creations sometimes use the upper-case spelling of a live token's address, judged only for what no reading of the statement allows: a pair of one contract with itself, or a second pair for a registered set). The other eight were reported at once, among them a stale-quote shortcut around `AssertMinimumReceive` that needs a 4-hop route crossing one pool twice (`C11m`), a JSON-layer truncation of an 18-digit tolerance (`C15m`) and a shadow registry entry written under a doubly namespaced key (`C19m`).
* Round 11 (the eight remaining history properties): `C01n` (the attached coin is looked up ignoring letter case, so a direct swap is paid for with the upper-case look-alike coin: C09 reports it at function level at once, C01's swap profile never played with attached funds -> it does now in 1/16 of its direct swaps) and `C07n` (an "approve + call" convenience makes the router pull the route originator's whole allowance - and on the public `Receive` entry the originator is a free field: no generated call hand-delivered that entry naming another holder, and the world's fixed allowance of 2^124 toward the router exceeded every balance, so such a pull could never succeed -> a forged-call kind doing exactly that, and worlds whose router allowance is small enough to be covered, or absent). The other six were reported at once, among them an approximate division by 10^18 that is off by one only above 2^133 (`C06n`), a cap on the reserves reported by `query_pools` (`C04n`) and two transposed `Option<Decimal>` arguments on the hook entry (`C10n`).
* Round 12 (ten properties; the hints listed what a tester who already varies amounts, actors, spellings, coin lists and administration would STILL hold fixed) was the most productive round: five of ten first missed. `C02p` (a `to` naming the pair's LP token or one of its cw20 asset contracts is silently dropped and the trader paid) and `C05p` (a provision whose `receiver` is the pair itself is minted to the caller): receivers were always absent, accounts or malformed strings -> contracts of the pair's household are now receivers of swaps and provisions. `C11p` (the bound cast to `i128`, so every `minimum_receive >= 2^127` wraps negative and is always met): bounds never exceeded 2^100 - **and the oracle of C11 contained the very same cast** (`g < m as i128`), besides an overflowing `m + 1` in its classification; both corrected, bounds now span the full 128 bits. `C17p` (a pair that holds liquidity ignores decimals updates): C17's factory-only worlds never fund a pair -> new suite `C17/live_pairs`, trading histories with owner administration interleaved, judged after every successful owner operation. `C20p` (refunds to a holder that is a contract go out as cw20 `Send`, which a contract without a `Receive` entry cannot accept): every LP holder was an account -> LP transfers and provision receivers now include the forwarding proxy and the factory. `C19p` (the registry key of a pair whose identifiers are prefix-related depends on the order its assets are named in) is reported by C16 at function level; C19's walker - which, as in the statement, continues after each pair *as returned* - still visits every pair once, and the reversed cursor is probed but by design only observed.
* The same round prompted one widening that no seeded change had asked for yet: hook swaps and withdrawals delivered through `SendFrom` (every actor grants the next one an allowance on every asset and LP token in half of the worlds; the owner's balance pays, the spender is the pair's `sender`). It needed the settlement, ledger and withdrawal oracles to distinguish payer from sender, and produced three false alarms of the harness on the unchanged tree while it was being built (two places that decoded `Send` but not `SendFrom`, and the ledger rule 'the receiver's balance only grows' when the allowance owner is also the receiver) - all corrected before the change was committed.
* Round 13 (eight properties, same kind of hints): `C14q` (the factory's `migrate` entry hands ownership to the chain-level admin when the recorded owner is the account that instantiated the factory: the admin and the instantiating owner were one account in every world -> half of C14's worlds give the factory an admin of its own, which migrates it in some states and is probed as a caller of every message) and `C16q` (the cw20 `TokenInfo` answer is parsed leniently, so a contract that reports no `decimals` is accepted with decimals 0: every non-token contract of the universe answered no TokenInfo at all -> the factory worlds hold one that answers it without `decimals`). The other six were reported at once: reserves cached by the withdraw hook and consumed by a later native swap (`C01q`), a lossy precision round trip on refunds (`C04q`), native/native reserves read by position from `AllBalances` (`C06q`, reachable because pairs already received stray coins), a payout to the token's own contract turned into a burn (`C07q`, reachable because swap receivers include the pair's token contracts since round 12), a denom-shape guard treating short or long denoms as cw20 (`C09q`), and a 64-bit truncation of the guard's decimals (`C10q`).
* Round 14 (eight properties, the hints now listing everything rounds 1-13 had added): `C16r` (the pair's `migrate` clears the creation whitelist of a funded pair, so the factory's record and the pair's self-description part) and `C17r` (the pair accepts the decimals update from the factory's owner too; C14's matrix reports that at once, C17 did not): the factory-only worlds of C16 / C17 never fund a pair and no history had the owner address a pair directly -> `live_pairs` now compares the whole record, is registered under C16 as well, and owner administration includes the direct message. `C19r` (a response-size budget over whitelist addresses drops the pair that crosses it, so a pair with more than 128 whitelisted addresses ends every walk): whitelists held at most four addresses -> every 13th pair of a C19 registry gets 129-168. `C14r` is once more a change filed under C14 that C02 reports (a direct `Swap` naming a cw20 asset, accepted when some attached coin carries the same amount): the pair's `Swap` entry is public, C14's matrix has no cell for it. The other four were reported at once (a fixed-point 'equals 100%' test on the hook amount, `C02r`; the locked LP amount scaled by the LP token's decimals, `C05r`; the trailing assertion cut off by a step limit on 5-hop routes, `C11r`; native/native reserves returned in the bank's alphabetical order, `C20r`).
* **One seeded change is not reported by any check: `C14h`.** It adds new factory messages (an owner-appointed operator role) and its flaw is reachable only through them. Generated inputs are drawn from the messages that exist in the unchanged tree; an entry point that a change introduces is outside every generated domain. This is a limit of the technique as set up here (section 8), not a blind spot a wider generator could close without knowing the change.
* Three round-6 changes (`C01f`, `C02f`, `C03f`) independently made asset equality ignore the asset kind, and `C04f` relied on a holder burning LP directly at the token contract - shapes that were only in the generators because earlier rounds had put them there (denoms spelled like token addresses after `C17c`/`C12c`; the direct LP burn was added minutes before `C04f` arrived).
* own mutants of C13 / C14, see D.1.

**Second seed.** After round 8 the whole catalogue was run once more with `VERIF_SEED=1`, each change against the check of its own property only (`mutants/results-seeded-seed1.txt`): 155 of 156 reported (all but `C14h`), median 19 s and at most 66 s per run including the incremental rebuild - so the detections above do not hinge on the default seed, and the widenings made for later rounds did not dilute the detection of earlier changes.

**Final re-run.** After round 12 the whole catalogue (208 changes then) was run once more against the machinery as it then stood, each change against the check of its own property (`C14i` against C02 and `C19p` against C16, which are the checks that report them): `mutants/results-seeded-final2-a.txt`, `-b.txt` - 207 of 208 reported (all but `C14h`), median 31 s and at most 133 s per run on a machine that was also running a thorough tier. The widenings of thirteen rounds have not diluted the detection of the earlier changes.

**Second driver.** Ten seeded changes of ten different properties were also run with the proptest stage switched off (`HV_ONLY_FUZZ=1`, thorough tier, `mutants/results-fuzz-only.txt`): the coverage-guided libFuzzer stage alone, started from the replay-tier tapes plus four random tapes, reported all ten (`C02c`, `C04b`, `C11b`, `C13b`, `C08b`, `C18b`, `C06`, `C15c`, `C20`, `C16c`) in 76-146 s each.

What the seeded changes taught about this technique here: the oracles were almost never the weak point (all misses but one were *generator* blind spots - the exception is `C11p`, where the oracle shared the seeded slip -: an input shape, an entry path, an operation kind or an identifier alphabet that was not produced), which is why later rounds - asked to differ from the earlier ones, and in round 4 steered to untouched code locations - kept being valuable: the miss rate was 2/20, 4/20 (one of them infrastructure), 2/20, 3/20, 1/20, 5/18, 5/18, 3/20, 3/18, 2/10, 2/8, 5/10, 2/8 and 3/8 in rounds 1 to 14 (the cross-contract and the state/sequence rounds were the most productive ones since round 2), and two of the three round-4 misses were still reported by the check of a *neighbouring* property (C13 for `C02d`, C17 for `C16d`).
""")
text = "\n".join(out)
s = open('/verif/DESIGN.md').read()
marker = "## Appendix D. Sensitivity results"
if marker in s:
    s = s[:s.index(marker)].rstrip() + "\n\n" + text
else:
    s = s.rstrip() + "\n\n" + text
open('/verif/DESIGN.md', 'w').write(s)
print("Appendix D written:", n_caught, "/", n_mut, "mutants;", n_seed_caught, "/", n_seed, "seeded")
