#!/usr/bin/env python3
"""Generates /verif/MANIFEST.json from the table below (single source of truth for the interface).
READY lists the properties whose checks are built and pass the acceptance criteria of DESIGN.md
section 10; every other property is listed under not_applicable with the reason it is not claimed
(yet)."""
import json, sys

READY = sys.argv[1].split(',') if len(sys.argv) > 1 else []

PBT = "property-based testing (proptest-generated + shrunk choice tapes)"
P = {
 "C01": dict(
   text="compute_swap is called on generated (offer reserve, ask reserve, offer, commission) over the full 128-bit range including constructed truncation-window, residue-class, emptying-region and near-2^256 classes, and every returned triple is judged by exact cross-multiplication (n*(x+a) <= y*a, product non-decreasing, ask reserve stays positive). At system level generated multi-actor histories on native/native, native/cw20 and cw20/cw20 pairs in a cw-multi-test world are executed and every successful swap (direct, cw20 hook, router hop) is judged on the pair's real balances. Exploration: the input space is 2^384 x rates; the thin failure regions known from reading the code are reached by construction.",
   note="Trusted: Nat oracle; cw-multi-test as the chain model (atomicity, bank, cw20-base). Known finding KF-SWAP-ROUNDUP is excluded by its root-cause signature only and reported as KNOWN-FINDING.",
   tech=PBT + ", exact rational oracle, stateful history generation, known-finding signature exclusion", ref="C01"),
 "C02": dict(
   text="For every pair kind and after a generated history, one swap attempt is generated from the full cross product (entry point x delivered asset x named asset x named amount x attached funds x receiver); on success the complete-ledger diff must equal the reference settlement (pair +offer of the named asset delivered by the trader, pair -return of the other asset, receiver +return) and agree with the response attributes; on failure the whole chain state must be byte-identical. A second suite judges swaps reached through the router (1..4 hops, stray router balances, a further coin attached to the entry call): per pair, the reserve movements of the transaction must equal the pair's own swap reports.",
   note="Trusted: cw-multi-test chain model, cw20-base as the token implementation; receivers are user accounts.",
   tech=PBT + ", reference-model ledger oracle over adversarial message shapes, whole-state equality on rejection", ref="C02"),
 "C03": dict(
   text="Generated histories (provide, withdraw, swaps both ways, router routes, donations, malformed and rejected calls, 4 actors, all pair kinds, commission 0..1, reserves dust..2^100) are executed and after every step reserve0*reserve1*S^2 >= previous*S'^2 is decided in exact 512-bit arithmetic for every pair with positive supply.",
   note="Trusted: cw-multi-test chain model; Nat oracle. Swap steps matching the KF-SWAP-ROUNDUP signature are counted and excluded.",
   tech=PBT + ", stateful/model-based history generation with a per-step invariant oracle", ref="C03"),
 "C04": dict(
   text="Every successful withdrawal inside generated histories (plus shapes built to inflate reserves by donation or to make supply >> reserves) is judged against the exact pro-rata bounds, exact burn of a, and a ledger diff touching only holder and pair; failures must leave the chain state identical.",
   note="Trusted: cw-multi-test chain model; Nat oracle.",
   tech=PBT + ", exact rational bounds on ledger deltas", ref="C04"),
 "C05": dict(
   text="calculate_lp_token_amount_to_user is called directly over the full 128-bit domain (share bounds on non-empty pools; whitelist, minimums and integer square root on empty ones). Every provision in generated histories (balanced/unbalanced, either asset order, all pair kinds, receiver set or not, whitelist/minimum configurations, donations before first provision) is judged: minted share within the stated bounds on pre-transaction reserves, exact deposits moved caller->pair, first provision gated by whitelist and minimums with isqrt supply and one reserved unit at the LP token's own address.",
   note="Trusted: cw-multi-test chain model; Nat oracle.",
   tech=PBT + ", exact rational bounds + reference model of first-provision rules", ref="C05"),
 "C06": dict(
   text="compute_swap outputs are judged against the two-sided price bound, the commission identity, the spread identity and monotonicity in the offer, on the same structured generator as C01 (rounding boundaries of every intermediate division constructed); at system level Simulation, swap attributes and the actual payout must agree and the ask reserve must fall by exactly the net return.",
   note="Trusted: Nat oracle; cw-multi-test chain model for the system-level half.",
   tech=PBT + ", exact rational oracle + metamorphic monotonicity", ref="C06"),
 "C07": dict(
   text="After every step of generated histories the complete ledger (every bank account and every cw20 holder decoded from raw chain storage, every total supply) is diffed: only actor, addressed contract(s), route pairs and receiver may change, receiver only upward, per-asset totals conserved, LP supply changes only by mint/burn of a successful provide/withdraw. Bystanders hold open allowances toward every pair and the router.",
   note="Trusted: cw-multi-test chain model; decoding of its storage layout (self-checked against typed queries on every world).",
   tech=PBT + ", whole-ledger conservation/frame oracle over generated histories", ref="C07"),
 "C08": dict(
   text="Every public Uint256/Decimal256 operator is evaluated on generated operand pairs (structured around limb carries, 2^256 overflow partners, powers of ten, zero divisors) and compared limb-for-limb with an independent big-natural oracle under a three-valued expectation (must abort / may abort / must return exactly). Exploration is the right level: the operand space is 2^512 per operator, the oracle is exact, and realistic arithmetic bugs (wrong rounding, wrapped product, dropped limb) have wide failure regions relative to the structured generator.",
   note="Trusted: the hand-written Nat oracle (self-validated on every run against u128 arithmetic, algebraic laws and python3 golden vectors); a Rust panic is an on-chain abort.",
   tech=PBT + ", differential against an independent bignum oracle", ref="C08"),
 "C09": dict(
   text="Asset::assert_sent_native_token_balance is called directly on generated valid coin sets (prefix-related and case-variant denoms, the declared amount attached under another denom). Provide, execute-swap and cw20-hook calls naming native assets are generated with every declared-vs-attached relation (absent, less, equal, more, zero+absent, extra unrelated coins, other pair denom attached) on pairs with one and two native assets: success implies attached == declared and the pair's balance rose by exactly that; failure implies whole-state equality; and the LP minted by any successful provision into a live pool is bounded by what the attached coin of each native side justifies (no native value credited that was not attached).",
   note="Trusted: cw-multi-test chain model (valid coin sets only).",
   tech=PBT + ", implication oracle + whole-state equality on rejection", ref="C09"),
 "C10": dict(
   text="assert_max_spread is called on generated (offer, return, spread, belief price, max spread, decimals 0..18 each side) with near-limit constructions, and both stated implications are decided exactly for each guard mode; at system level swaps are executed with quotes taken before interleaved trades and judged with the pair's stored decimals in offer/ask order.",
   note="Trusted: Nat oracle; error class read from the contract error text.",
   tech=PBT + ", exact rational two-sided guard oracle", ref="C10"),
 "C11": dict(
   text="Routes of 1..4 hops over native and cw20 assets are executed with minimum_receive drawn around the amount D the same route delivers on a fork of the same world ({0, D-1, D, D+1, 2D, random}), any recipient, both entry points, after interleaved trades: success implies the recipient's net growth >= m; D < m implies failure with whole-state equality.",
   note="Trusted: cw-multi-test chain model; fork-by-snapshot (validated by snapshot equality).",
   tech=PBT + ", differential against a forked execution, whole-state equality on rejection", ref="C11"),
 "C12": dict(
   text="compute_offer_amount is called directly on 128-bit reserves with asks around the deliverable maximum. In states reached by generated histories: forward Simulation must equal the immediately executed swap (attributes and ledger deltas); ReverseSimulation must lie in [F-B, F] for the documented closed form F with derived rounding bound B; router Simulate/ReverseSimulate must equal the harness's own fold of pair queries (and fail where the fold fails).",
   note="Trusted: Nat oracle; B is the harness's derivation of the rounding bound from the documented truncations.",
   tech=PBT + ", differential (simulate vs execute, router vs fold) + exact closed-form bounds", ref="C12"),
 "C13": dict(
   text="assert_operations is called directly on generated routes of 0..6 hops (chains, forks, fan-ins, disconnected hops) and compared with the dangling-output set on asset identities. Accepted routes with pairwise distinct pairs are executed while the router holds none of the route's assets: recipient growth == SimulateSwapOperations in the same pre-state, input fully consumed, router ends at zero in every route asset, no intermediate asset reaches the recipient; empty routes and routes with >1 dangling output (computed on asset identities) must be rejected.",
   note="Trusted: cw-multi-test chain model.",
   tech=PBT + ", differential (quote vs delivery) + route-shape reference model", ref="C13"),
 "C14": dict(
   text="The (message x caller role) matrix of the three contracts is enumerated completely; for each cell arguments and world state are generated, the same message is sent on a fork by an authorised caller (must succeed, else the cell is vacuous) and by the role under test (must fail with whole-state equality unless the statement authorises it); ownership transfer is followed.",
   note="Trusted: cw-multi-test chain model incl. sender impersonation of contract addresses.",
   tech=PBT + ", exhaustive role x message enumeration with generated states, metamorphic authorised-twin oracle", ref="C14"),
 "C15": dict(
   text="assert_slippage_tolerance is called on generated deposits/reserves/tolerances with constructions at the limit +-2, and both stated implications plus 't > 1 always rejected' are decided exactly; at system level provisions with a tolerance are judged on the pre-transaction reserves after interleaved swaps.",
   note="Trusted: Nat oracle.",
   tech=PBT + ", exact rational two-sided guard oracle", ref="C15"),
 "C16": dict(
   text="pair_key is called directly on generated pairs of asset sets: equal keys iff equal unordered sets. Histories of CreatePair calls over native denoms with shared prefixes/varying lengths, cw20 tokens, unregistered denoms and non-token addresses are executed against a reference registry keyed by unordered asset identity: lookups in both orders agree with the model and with the pair's self-description, distinct sets never alias, duplicate/identical/invalid creations fail with whole-state equality, recorded decimals are the true ones (also when the owner re-registers a denom's decimals between creations). A second suite runs trading histories with owner administration (re-registration, configuration, pair and factory migration) and compares, after every successful owner operation, the factory's record of every pair with that pair's own Pair answer member for member.",
   note="Trusted: cw-multi-test chain model.",
   tech=PBT + ", model-based testing against a reference registry", ref="C16"),
 "C17": dict(
   text="Histories mixing pair creations and decimals (re-)registrations with 1..40 pairs are executed against a model of denom->decimals and pair->[dec0,dec1]; after every step factory record == pair self-description == model for every pair, with registry sizes straddling the listing limits 10 and 30. A second suite judges the same agreement for LIVE pairs: trading histories (provisions, swaps, withdrawals, routes) with owner administration interleaved, judged after every successful owner operation.",
   note="Trusted: cw-multi-test chain model.",
   tech=PBT + ", model-based testing against a reference registry", ref="C17"),
 "C18": dict(
   text="Generated 256-bit values (structured around powers of ten, limb boundaries, leading/trailing fractional zeros, maxima) are rendered, parsed back, JSON round-tripped (cosmwasm JSON and serde_json) and compared with the oracle's canonical numeral; generated numeral strings and their mutations must parse to exactly the denoted value or be rejected according to the grammar; width conversions must be identity or abort exactly when the value does not fit.",
   note="Trusted: Nat oracle's decimal rendering (validated against python3). Strings with an empty digit group may be rejected or read leniently (DESIGN F8).",
   tech=PBT + ", round-trip + canonical-form + grammar oracle", ref="C18"),
 "C19": dict(
   text="Registries of 0..40 pairs over mixed asset kinds and prefix-sharing denoms are built, then walked with every page size 1..40 and absent, and every registered pair is tried as a cursor: pages concatenate to a duplicate-free complete enumeration, each page has length min(limit or 10, 30, remaining), and the remainder after any cursor is exactly the entries that follow it.",
   note="Trusted: cw-multi-test chain model.",
   tech=PBT + ", model-based pagination oracle, exhaustive over page sizes and cursors per registry", ref="C19"),
 "C20": dict(
   text="After hostile generated prefixes (extreme swaps, donations to 2^120, dust pools, commission 0 and 1) every LP holder's withdrawals of {1, 2, half, balance-1, balance} whose exact precondition r_i*a/S >= r_i/10^18 + 2 holds are executed on a fork and must succeed (and meet C04's bounds).",
   note="Trusted: cw-multi-test chain model; fork-by-snapshot.",
   tech=PBT + ", fork-and-inject oracle over generated histories", ref="C20"),
}

checks, na = [], []
for pid in sorted(P):
    p = P[pid]
    if pid in READY:
        checks.append({
            "property_id": pid,
            "quick_cmd": f"./check {pid} quick",
            "thorough_cmd": f"./check {pid} thorough",
            "evidence_file": f"evidence/{pid}.json",
            "replay_cmd_template": f"./check {pid} --replay {{path}}",
            "engine": "hv",
            "level_claimed": {"category": "exploration", "text": p["text"], "design_ref": f"DESIGN.md section 4, {p['ref']}"},
            "level_note": p["note"],
            "technique": p["tech"],
        })
    else:
        na.append({"property_id": pid, "reason": "not claimed yet: the property-based check designed in DESIGN.md section 4 is still being built; the technique applies"})

m = {
  "version": 1,
  "setup_cmd": "./check setup",
  "hooks": {
    "guard": "halotrade_verif",
    "enable": "no source hooks are needed: every observation point (formulas, guards, entry points, state readers) is already public; the harness path-depends on /repo's crates and rebuilds them from the working tree on every check",
    "baseline_off_cmd": "cd /repo && cargo test --workspace --no-fail-fast --offline",
    "source_commits": [],
    "add_only": True,
  },
  "engines": [{
    "name": "hv", "path": "harness/", "serves_properties": sorted(READY),
    "kind_free_text": "property-based testing: proptest-generated and proptest-shrunk choice tapes decoded into structured inputs / operation histories, judged by an independent big-natural oracle or reference model; replay tier of saved inputs; libFuzzer (stable toolchain + sancov) as second driver over the same check functions in thorough tiers",
  }],
  "checks": checks,
  "not_applicable": na,
  "notes": "See DESIGN.md (Appendix B: as built; C: defects found, fixes, known finding; D: sensitivity results on 61 own mutants and 40+ independently seeded changes). KNOWN_FINDINGS.txt lists genuine defects recorded rather than repaired (known:) and repaired ones (fixed:). Function-level suites call a few internal helpers by their Rust signatures through harness/src/direct.rs (one cargo feature each); if a change to /repo alters such a signature ./check rebuilds without that shim, the function-level suite is skipped (evidence says so) and the system-level suites of the same property still decide it.",
}
json.dump(m, open('/verif/MANIFEST.json', 'w'), indent=1)
print("MANIFEST: claimed", [c['property_id'] for c in checks])
