//! History runner for the system-level suites and the classification of steps into intents.

use crate::engine::*;
use crate::hist::*;
use crate::world::*;
use cosmwasm_std::from_binary;
use cw20::Cw20ExecuteMsg;
use haloswap::asset::{Asset, AssetInfo};
use haloswap::pair::{Cw20HookMsg as PairHook, ExecuteMsg as PairExec};
use haloswap::router::{Cw20HookMsg as RouterHook, ExecuteMsg as RouterExec, SwapOperation};
use serde_json::{json, Value};

#[derive(Clone, Debug)]
pub enum Intent {
    Provide { pair: usize, assets: [Asset; 2], receiver: String },
    /// `holder` sends the LP tokens to the pair and is paid; `owner` is whose LP tokens they are (the same
    /// account unless the holder spends an allowance through `SendFrom`)
    Withdraw { pair: usize, amount: u128, holder: String, owner: String },
    /// a swap attempt at a pair; `delivered` = what the trader actually hands over in this tx
    /// (`payer` = whose balance the delivered asset leaves: the sender, or the owner behind a `SendFrom`)
    Swap { pair: usize, hook: bool, offer: Asset, delivered: Vec<(AssetInfo, u128)>, receiver: String, payer: String },
    /// `delivered` = the input of the route; `extras` = further coins attached to the router call (they sit in
    /// the router while the route runs)
    Route { ops: Vec<SwapOperation>, delivered: (AssetInfo, u128), extras: Vec<(AssetInfo, u128)>, minimum: Option<u128>, receiver: String },
    /// plain transfer of an asset to `to`
    Transfer { asset: AssetInfo, to: String, amount: u128 },
    Allowance,
    /// a holder burns its own LP tokens directly at the LP token contract (no pair involved)
    BurnLp { pair: usize, amount: u128 },
    Other,
}

pub fn pair_by_addr(w: &World, addr: &str) -> Option<usize> {
    w.pairs.iter().position(|p| p.addr == addr)
}
pub fn pair_by_lp(w: &World, addr: &str) -> Option<usize> {
    w.pairs.iter().position(|p| p.lp == addr)
}
pub fn pair_by_assets(w: &World, a: &AssetInfo, b: &AssetInfo) -> Option<usize> {
    w.pairs.iter().position(|p| (p.infos[0] == *a && p.infos[1] == *b) || (p.infos[0] == *b && p.infos[1] == *a))
}

pub fn classify(w: &World, st: &Step) -> Intent {
    let funds: Vec<(AssetInfo, u128)> = st.funds.iter().map(|c| (AssetInfo::NativeToken { denom: c.denom.clone() }, c.amount.u128())).collect();
    match &st.call {
        Call::Pair { pair, msg } => match msg {
            PairExec::ProvideLiquidity { assets, receiver, .. } => Intent::Provide { pair: *pair, assets: assets.clone(), receiver: receiver.clone().unwrap_or_else(|| st.sender.clone()) },
            PairExec::Swap { offer_asset, to, .. } => Intent::Swap { pair: *pair, hook: false, offer: offer_asset.clone(), delivered: funds, receiver: to.clone().unwrap_or_else(|| st.sender.clone()), payer: st.sender.clone() },
            _ => Intent::Other,
        },
        Call::Cw20 { token, msg } => match msg {
            // the same hooks delivered by a spender out of somebody else's balance
            Cw20ExecuteMsg::SendFrom { owner, contract, amount, msg } => match pair_by_addr(w, contract) {
                Some(p) => match from_binary::<PairHook>(msg) {
                    Ok(PairHook::Swap { offer_asset, to, .. }) => Intent::Swap {
                        pair: p,
                        hook: true,
                        offer: offer_asset,
                        delivered: vec![(AssetInfo::Token { contract_addr: token.clone() }, amount.u128())],
                        receiver: to.unwrap_or_else(|| st.sender.clone()),
                        payer: owner.clone(),
                    },
                    Ok(PairHook::WithdrawLiquidity {}) if w.pairs[p].lp == *token => Intent::Withdraw { pair: p, amount: amount.u128(), holder: st.sender.clone(), owner: owner.clone() },
                    _ => Intent::Other,
                },
                None => Intent::Other,
            },
            Cw20ExecuteMsg::Send { contract, amount, msg } => {
                if let Some(p) = pair_by_addr(w, contract) {
                    match from_binary::<PairHook>(msg) {
                        Ok(PairHook::Swap { offer_asset, to, .. }) => Intent::Swap {
                            pair: p,
                            hook: true,
                            offer: offer_asset,
                            delivered: vec![(AssetInfo::Token { contract_addr: token.clone() }, amount.u128())],
                            receiver: to.unwrap_or_else(|| st.sender.clone()),
                            payer: st.sender.clone(),
                        },
                        Ok(PairHook::WithdrawLiquidity {}) if w.pairs[p].lp == *token => Intent::Withdraw { pair: p, amount: amount.u128(), holder: st.sender.clone(), owner: st.sender.clone() },
                        _ => Intent::Other,
                    }
                } else if *contract == w.router.as_str() {
                    match from_binary::<RouterHook>(msg) {
                        Ok(RouterHook::ExecuteSwapOperations { operations, minimum_receive, to }) => Intent::Route {
                            ops: operations,
                            delivered: (AssetInfo::Token { contract_addr: token.clone() }, amount.u128()),
                            extras: vec![],
                            minimum: minimum_receive.map(|m| m.u128()),
                            receiver: to.unwrap_or_else(|| st.sender.clone()),
                        },
                        _ => Intent::Other,
                    }
                } else {
                    Intent::Other
                }
            }
            Cw20ExecuteMsg::Transfer { recipient, amount } => Intent::Transfer { asset: AssetInfo::Token { contract_addr: token.clone() }, to: recipient.clone(), amount: amount.u128() },
            Cw20ExecuteMsg::IncreaseAllowance { .. } | Cw20ExecuteMsg::DecreaseAllowance { .. } => Intent::Allowance,
            Cw20ExecuteMsg::Burn { amount } => match pair_by_lp(w, token) {
                Some(p) => Intent::BurnLp { pair: p, amount: amount.u128() },
                None => Intent::Other,
            },
            _ => Intent::Other,
        },
        Call::Bank { to, coins } => {
            if coins.len() == 1 {
                Intent::Transfer { asset: AssetInfo::NativeToken { denom: coins[0].denom.clone() }, to: to.clone(), amount: coins[0].amount.u128() }
            } else {
                Intent::Other
            }
        }
        Call::Router { msg } => match msg {
            RouterExec::ExecuteSwapOperations { operations, minimum_receive, to } => {
                // the input is the attached coin of the first hop's offer asset (else the first coin)
                let want = operations.first().map(|SwapOperation::HaloSwap { offer_asset_info, .. }| offer_asset_info.clone());
                let at = funds.iter().position(|(a, _)| Some(a) == want.as_ref()).unwrap_or(0);
                let first = funds.get(at).cloned().unwrap_or((AssetInfo::NativeToken { denom: String::new() }, 0));
                let extras: Vec<(AssetInfo, u128)> = funds.iter().enumerate().filter(|(i, _)| *i != at).map(|(_, c)| c.clone()).collect();
                Intent::Route { ops: operations.clone(), delivered: first, extras, minimum: minimum_receive.map(|m| m.u128()), receiver: to.clone().unwrap_or_else(|| st.sender.clone()) }
            }
            _ => Intent::Other,
        },
        _ => Intent::Other,
    }
}

/// reserves and LP supply of pair p in a snapshot
pub fn pool_in(w: &World, snap: &Snapshot, p: usize) -> (u128, u128, u128) {
    let pr = &w.pairs[p];
    (snap_balance(snap, &pr.infos[0], pr.addr.as_str()), snap_balance(snap, &pr.infos[1], pr.addr.as_str()), snap_supply(snap, pr.lp.as_str()))
}

pub fn step_summary(w: &World, st: &Step, out: &Outcome) -> Value {
    let what = match classify(w, st) {
        Intent::Provide { pair, assets, receiver } => format!("provide pair{} [{} , {}] receiver {}", pair, assets[0], assets[1], receiver),
        Intent::Withdraw { pair, amount, holder, owner } => format!("withdraw pair{} {} LP{}", pair, amount, if holder != owner { format!(" (SendFrom: LP tokens of {})", owner) } else { String::new() }),
        Intent::Swap { pair, hook, offer, delivered, receiver, payer } => format!(
            "swap pair{} via {} names {} delivers [{}]{} to {}",
            pair,
            if hook { "cw20-hook" } else { "execute" },
            offer,
            delivered.iter().map(|(a, v)| format!("{}{}", v, a)).collect::<Vec<_>>().join(","),
            if payer != st.sender { format!(" (SendFrom: out of {}'s balance)", payer) } else { String::new() },
            receiver
        ),
        Intent::Route { ops, delivered, extras, minimum, receiver } => format!(
            "route {} delivers {}{}{} minimum {:?} to {}",
            ops.iter().map(|o| match o { SwapOperation::HaloSwap { offer_asset_info, ask_asset_info } => format!("{}>{}", offer_asset_info, ask_asset_info) }).collect::<Vec<_>>().join(" "),
            delivered.1, delivered.0,
            if extras.is_empty() { String::new() } else { format!(" (+ attached {})", extras.iter().map(|(a, v)| format!("{}{}", v, a)).collect::<Vec<_>>().join(",")) },
            minimum, receiver
        ),
        Intent::Transfer { asset, to, amount } => format!("transfer {}{} to {}", amount, asset, to),
        Intent::Allowance => "change allowance".to_string(),
        Intent::BurnLp { pair, amount } => format!("burn {} LP of pair{} directly at the LP token", amount, pair),
        Intent::Other => format!("{:?}", st.call).chars().take(200).collect(),
    };
    json!({"sender": st.sender, "what": what, "funds": st.funds.iter().map(|c| c.to_string()).collect::<Vec<_>>(),
        "result": match out { Outcome::Ok{..} => "ok".to_string(), Outcome::Err(e) => format!("error: {}", e.chars().take(160).collect::<String>()), Outcome::Abort(e) => format!("abort: {}", e.chars().take(160).collect::<String>()) }})
}

pub struct HistOutcome {
    pub verdict: Verdict,
    pub classes: Vec<&'static str>,
    pub steps_run: usize,
    pub desc: Option<Value>,
    pub nontrivial: bool,
}

pub struct StepCtx<'a> {
    pub world: &'a mut World,
    pub rec: &'a StepRecord,
    pub intent: &'a Intent,
    pub kind: Option<usize>,
    pub index: usize,
    /// spare choices of this operation's tape chunk, for oracles that generate their own probes
    pub extra: &'a [u64],
}

/// The per-step oracle of a property: returns classes to count, or a non-pass verdict.
pub trait StepOracle {
    /// called right before a step is executed (quotes in the pre-state)
    fn pre_step(&mut self, _w: &mut World, _step: &Step, _intent: &Intent, _gs: &GenState) {}
    fn on_step(&mut self, cx: &mut StepCtx, classes: &mut Vec<&'static str>) -> Verdict;
    /// called once after the last step
    fn finish(&mut self, _w: &mut World, _classes: &mut Vec<&'static str>) -> Verdict {
        Verdict::Pass
    }
    fn nontrivial(&self) -> bool;
}

pub fn cfg_summary(cfg: &WorldCfg) -> Value {
    json!({"native_decimals": cfg.native_decimals, "token_decimals": cfg.token_decimals,
        "pairs": cfg.pairs.iter().map(|p| json!({"assets": format!("{:?}/{:?}", p.assets[0], p.assets[1]), "commission_atomics": p.commission.map(|c| c.to_string()), "whitelist": p.whitelist, "minimum": [p.minimum[0].to_string(), p.minimum[1].to_string()]})).collect::<Vec<_>>()})
}

/// Build a world from the tape head, seed liquidity, then run the op chunks through `oracle`.
pub fn run_history(t: &Tape, prof: &Profile, seed_liquidity_16: u64, oracle: &mut dyn StepOracle, want_desc: bool) -> HistOutcome {
    let mut s = Src::new(&t.head);
    let cfg = gen_world_cfg(&mut s, prof);
    let mut world = match World::build(&cfg) {
        Ok(w) => w,
        Err(e) => panic!("world build failed (harness): {} cfg={:?}", e, cfg),
    };
    let mut classes: Vec<&'static str> = vec![];
    for p in &world.pairs {
        classes.push(match (p.infos[0].is_native_token(), p.infos[1].is_native_token()) {
            (true, true) => "pair:native/native",
            (false, false) => "pair:cw20/cw20",
            _ => "pair:native/cw20",
        });
    }
    let mut log: Vec<Value> = vec![];
    let mut concrete: Vec<Step> = vec![];
    let mut verdict = Verdict::Pass;
    let mut steps_run = 0usize;
    // setup steps: seed liquidity on most pairs (each is a real, checked step)
    let mut planned: Vec<(Step, Option<usize>)> = vec![];
    for p in 0..world.pairs.len() {
        if s.below(16) < seed_liquidity_16 {
            planned.push((gen_seed_liquidity(&world, &mut s, p, prof), None));
        }
    }
    let mut op_iter = t.ops.iter();
    let mut idx = 0usize;
    let mut gs = GenState::default();
    loop {
        let mut extra: &[u64] = &[];
        let (step, kind) = if !planned.is_empty() {
            planned.remove(0)
        } else if let Some(chunk) = op_iter.next() {
            let mut os = Src::new(chunk);
            let (st, k) = gen_step(&world, &mut os, prof, &mut gs);
            extra = &chunk[chunk.len().saturating_sub(EXTRA_LEN)..];
            (st, Some(k))
        } else {
            break;
        };
        let intent = classify(&world, &step);
        if want_desc {
            concrete.push(step.clone());
        }
        oracle.pre_step(&mut world, &step, &intent, &gs);
        let rec = world.exec(step);
        steps_run += 1;
        if let Some(k) = kind {
            classes.push(KIND_NAMES[k]);
        }
        classes.push(match &rec.outcome {
            Outcome::Ok { .. } => "r:ok",
            Outcome::Err(_) => "r:error",
            Outcome::Abort(_) => "r:abort",
        });
        if want_desc {
            log.push(step_summary(&world, &rec.step, &rec.outcome));
        }
        // harness invariant: a failed transaction leaves the chain byte-identical (atomicity of the
        // chain model).  The properties that state it judge it themselves; here it guards the harness.
        let mut cx = StepCtx { world: &mut world, rec: &rec, intent: &intent, kind, index: idx, extra };
        let v = oracle.on_step(&mut cx, &mut classes);
        idx += 1;
        if !matches!(v, Verdict::Pass) {
            let stop = matches!(v, Verdict::Fail(_));
            if matches!(verdict, Verdict::Pass) || stop {
                verdict = v;
            }
            if stop {
                if !want_desc {
                    log.push(step_summary(&world, &rec.step, &rec.outcome));
                }
                break;
            }
        }
    }
    if !matches!(verdict, Verdict::Fail(_)) {
        let v = oracle.finish(&mut world, &mut classes);
        if !matches!(v, Verdict::Pass) {
            verdict = v;
        }
    }
    classes.sort();
    classes.dedup();
    let desc = if want_desc || matches!(verdict, Verdict::Fail(_)) {
        let mut d = json!({"world": cfg_summary(&cfg), "steps": log});
        if want_desc {
            d["concrete"] = json!({"profile": prof.name, "cfg": cfg, "steps": concrete});
        }
        Some(d)
    } else {
        None
    };
    HistOutcome { verdict, classes, steps_run, desc, nontrivial: oracle.nontrivial() }
}

/// Tape-independent replay: a recorded world configuration plus concrete steps.
pub fn run_concrete(v: &Value, oracle: &mut dyn StepOracle) -> Result<CaseResult, String> {
    let cfg: WorldCfg = serde_json::from_value(v.get("cfg").cloned().ok_or("missing cfg")?).map_err(|e| format!("cfg: {e}"))?;
    let steps: Vec<Step> = serde_json::from_value(v.get("steps").cloned().ok_or("missing steps")?).map_err(|e| format!("steps: {e}"))?;
    let mut world = World::build(&cfg)?;
    let mut classes: Vec<&'static str> = vec![];
    let mut log = vec![];
    let mut verdict = Verdict::Pass;
    for (idx, step) in steps.into_iter().enumerate() {
        let intent = classify(&world, &step);
        oracle.pre_step(&mut world, &step, &intent, &GenState::default());
        let rec = world.exec(step);
        log.push(step_summary(&world, &rec.step, &rec.outcome));
        let mut cx = StepCtx { world: &mut world, rec: &rec, intent: &intent, kind: None, index: idx, extra: &[] };
        let r = oracle.on_step(&mut cx, &mut classes);
        if !matches!(r, Verdict::Pass) {
            let stop = matches!(r, Verdict::Fail(_));
            if matches!(verdict, Verdict::Pass) || stop {
                verdict = r;
            }
            if stop {
                break;
            }
        }
    }
    if !matches!(verdict, Verdict::Fail(_)) {
        let r = oracle.finish(&mut world, &mut classes);
        if !matches!(r, Verdict::Pass) {
            verdict = r;
        }
    }
    Ok(CaseResult { verdict, nontrivial: oracle.nontrivial(), key: fnv64(v.to_string().as_bytes()), classes, desc: Some(json!({"world": cfg_summary(&cfg), "steps": log})) })
}

pub fn direct_with<O: StepOracle + Default>(v: &Value) -> Result<CaseResult, String> {
    let mut o = O::default();
    run_concrete(v, &mut o)
}

pub fn hist_case(t: &Tape, h: HistOutcome) -> CaseResult {
    CaseResult { verdict: h.verdict, nontrivial: h.nontrivial, key: fnv64(&t.to_bytes()), classes: h.classes, desc: h.desc }
}

// ------------------------------------------------------------------------------------------------
// ledger-delta helpers shared by the settlement properties

pub type DeltaMap = std::collections::BTreeMap<(String, String), i128>; // (account, asset key) -> delta

pub fn asset_key(a: &AssetInfo) -> String {
    match a {
        AssetInfo::NativeToken { denom } => format!("native:{}", denom),
        AssetInfo::Token { contract_addr } => format!("cw20:{}", contract_addr),
    }
}

/// every balance change of the step, for every account in chain storage
pub fn actual_deltas(rec: &StepRecord) -> DeltaMap {
    let mut m = DeltaMap::new();
    for c in &rec.changes {
        match c {
            Change::Bank { account, denom, before, after } => {
                *m.entry((account.clone(), format!("native:{}", denom))).or_default() += *after as i128 - *before as i128;
            }
            Change::Cw20Balance { token, account, before, after } => {
                *m.entry((account.clone(), format!("cw20:{}", token))).or_default() += *after as i128 - *before as i128;
            }
            _ => {}
        }
    }
    m.retain(|_, v| *v != 0);
    m
}

pub fn add_delta(m: &mut DeltaMap, account: &str, asset: &AssetInfo, d: i128) {
    let e = m.entry((account.to_string(), asset_key(asset))).or_default();
    *e += d;
}

pub fn supply_changes(rec: &StepRecord) -> Vec<(String, i128)> {
    rec.changes
        .iter()
        .filter_map(|c| if let Change::Cw20Supply { token, before, after } = c { Some((token.clone(), *after as i128 - *before as i128)) } else { None })
        .collect()
}

/// first difference between two delta maps, as text
pub fn diff_deltas(expected: &DeltaMap, actual: &DeltaMap) -> Option<String> {
    let mut e = expected.clone();
    e.retain(|_, v| *v != 0);
    for (k, v) in &e {
        let a = actual.get(k).copied().unwrap_or(0);
        if a != *v {
            return Some(format!("balance of {} in {} changed by {} but the settlement requires {}", k.0, k.1, a, v));
        }
    }
    for (k, a) in actual {
        if !e.contains_key(k) {
            return Some(format!("balance of {} in {} changed by {} although the settlement does not involve it", k.0, k.1, a));
        }
    }
    None
}
