//! hv — entry point of the verification harness.
//!
//!   hv <ID> [quick|thorough]        replay tier + generated tier, writes evidence/<ID>.json
//!   hv <ID> --replay <file>         run one replay file through the property's oracle
//!   hv selftest                     validate the Nat oracle only
//!   hv list                         list properties and suites
//!
//! Exit codes: 0 held on everything explored; 1 violation (a `VIOLATION property=<id> replay=<path>`
//! line is printed); 2 infrastructure problem (never a violation).

use hv::engine::*;
use hv::known;
use hv::props;
use serde_json::json;
use std::path::PathBuf;

const GOLDEN: &str = include_str!("../golden/vectors.txt");

fn die2(msg: &str) -> ! {
    eprintln!("hv: INFRASTRUCTURE: {}", msg);
    std::process::exit(2)
}

fn load_replay(path: &std::path::Path) -> Result<ReplayFile, String> {
    let txt = std::fs::read_to_string(path).map_err(|e| format!("{}: {}", path.display(), e))?;
    serde_json::from_str(&txt).map_err(|e| format!("{}: {}", path.display(), e))
}

fn replay_files_for(prop: &str) -> Vec<PathBuf> {
    let mut out = vec![];
    for sub in ["replays/seeds", "replays/found"] {
        let dir = verif_root().join(sub);
        if let Ok(rd) = std::fs::read_dir(&dir) {
            let mut v: Vec<PathBuf> = rd.filter_map(|e| e.ok().map(|e| e.path())).collect();
            v.sort();
            for p in v {
                let name = p.file_name().unwrap().to_string_lossy().to_string();
                if name.starts_with(&format!("{}-", prop)) && name.ends_with(".json") {
                    out.push(p);
                }
            }
        }
    }
    out
}

/// libFuzzer campaigns (stable toolchain + sancov, DESIGN.md 2.5) over the same check functions:
/// per suite, N processes with fixed -runs and -seed, corpus seeded with the replay-tier tapes and a
/// few proptest-generated tapes.  A failing input is written by the target as a replay file.
fn fuzz_stage(id: &str, prop: &props::Property, seed: u64, scale: f64, violations: &mut Vec<(String, PathBuf)>) -> serde_json::Value {
    let bin = verif_root_static().join("fuzz/target/x86_64-unknown-linux-gnu/release/hvfuzz");
    if !bin.exists() {
        eprintln!("hv: NOTE: fuzz binary not built ({}); coverage-guided stage skipped", bin.display());
        return json!({"ran": false, "reason": "fuzz binary not built"});
    }
    let procs: usize = std::env::var("HV_FUZZ_PROCS").ok().and_then(|s| s.parse().ok()).unwrap_or(8);
    let mut per_suite = serde_json::Map::new();
    let mut total_execs = 0u64;
    for suite in &prop.suites {
        // runs per process: cheap function-level suites get many, world suites fewer
        let base: u64 = if suite.op_len == 0 && suite.head_len <= 64 { 600_000 } else if suite.op_len == 0 { 60_000 } else { 25_000 };
        // never more than an eighth of the suite's thorough case count per process: suites whose single case is
        // expensive (a whole caller matrix, a 40-pair registry walk) declare fewer cases and get fewer runs
        let base = base.min(suite.thorough_cases / 8);
        let runs = ((base as f64 * scale) as u64).max(100);
        let max_len = (suite.head_len + suite.op_len * suite.max_ops) * 8;
        let work = verif_root_static().join(format!("harness/target/fuzz-work/{}-{}", id, suite.name));
        let _ = std::fs::remove_dir_all(&work);
        let mut children = vec![];
        for k in 0..procs {
            let corpus = work.join(format!("corpus{}", k));
            std::fs::create_dir_all(&corpus).unwrap();
            // seed corpus: tapes of the replay tier + deterministic pseudo-tapes of full length
            let mut n = 0;
            for path in replay_files_for(id) {
                if let Ok(rf) = load_replay(&path) {
                    if rf.suite == suite.name {
                        if let Some(t) = rf.tape {
                            std::fs::write(corpus.join(format!("seed-replay-{}", n)), t.to_bytes()).unwrap();
                            n += 1;
                        }
                    }
                }
            }
            for j in 0..4u64 {
                let mut bytes = vec![];
                let mut x = fnv64(format!("{}:{}:{}:{}:{}", seed, id, suite.name, k, j).as_bytes());
                for _ in 0..(max_len / 8) {
                    x = x.wrapping_mul(6364136223846793005).wrapping_add(1442695040888963407);
                    bytes.extend_from_slice(&(x ^ (x >> 29)).to_le_bytes());
                }
                std::fs::write(corpus.join(format!("seed-full-{}", j)), bytes).unwrap();
            }
            let log = std::fs::File::create(work.join(format!("log{}.txt", k))).unwrap();
            let child = std::process::Command::new(&bin)
                .env("HV_FUZZ_PROP", id)
                .env("HV_FUZZ_SUITE", suite.name)
                .arg(&corpus)
                .arg(format!("-runs={}", runs))
                .arg(format!("-seed={}", (seed.wrapping_mul(1000003).wrapping_add(k as u64) % 4_000_000_000).max(1)))
                .arg("-len_control=0")
                .arg(format!("-max_len={}", max_len))
                .arg("-print_final_stats=1")
                .arg("-verbosity=0")
                .arg(format!("-artifact_prefix={}/artifact{}-", work.display(), k))
                .stdout(std::process::Stdio::null())
                .stderr(log)
                .spawn();
            match child {
                Ok(c) => children.push((k, c)),
                Err(e) => die2(&format!("cannot start fuzz process: {}", e)),
            }
        }
        let mut execs = 0u64;
        let mut new_units = 0u64;
        let mut failed = false;
        for (k, mut c) in children {
            let st = c.wait().expect("fuzz process wait");
            let log = std::fs::read_to_string(work.join(format!("log{}.txt", k))).unwrap_or_default();
            for line in log.lines() {
                if let Some(v) = line.strip_prefix("stat::number_of_executed_units:") {
                    execs += v.trim().parse::<u64>().unwrap_or(0);
                }
                if let Some(v) = line.strip_prefix("stat::new_units_added:") {
                    new_units += v.trim().parse::<u64>().unwrap_or(0);
                }
            }
            if !st.success() {
                if let Some(l) = log.lines().find(|l| l.starts_with("HVFUZZ-FAILURE")) {
                    let path = l.split("replay=").nth(1).and_then(|r| r.split(" ::").next()).unwrap_or("").to_string();
                    let msg = l.split(":: ").nth(1).unwrap_or("").to_string();
                    if !failed {
                        println!("failure (libFuzzer, suite {}): {}", suite.name, msg);
                        violations.push((msg, PathBuf::from(path)));
                    }
                    failed = true;
                } else if log.contains("HVFUZZ-INTERNAL") {
                    die2(&format!("fuzz target reported a harness panic: {}", log.lines().find(|l| l.contains("HVFUZZ-INTERNAL")).unwrap_or("")));
                } else {
                    die2(&format!("fuzz process {} for suite {} ended abnormally (status {:?}); see {}", k, suite.name, st.code(), work.display()));
                }
            }
        }
        total_execs += execs;
        per_suite.insert(suite.name.to_string(), json!({"processes": procs, "runs_per_process": runs, "executed_units": execs, "new_corpus_units": new_units, "max_len_bytes": max_len}));
        let _ = std::fs::remove_dir_all(&work);
        if failed {
            break;
        }
    }
    json!({"ran": true, "engine": "libFuzzer (libfuzzer-sys 0.4 on the stable toolchain, SanitizerCoverage inline-8bit-counters + trace-compares)", "executed_units": total_execs, "suites": serde_json::Value::Object(per_suite)})
}

fn verif_root_static() -> PathBuf {
    // binaries and scratch always live under the real /verif tree, even when HV_ROOT redirects outputs
    std::env::var("HV_HOME").map(Into::into).unwrap_or_else(|_| PathBuf::from("/verif"))
}

fn main() {
    let args: Vec<String> = std::env::args().skip(1).collect();
    if args.is_empty() {
        die2("usage: hv <ID> [quick|thorough] | hv <ID> --replay <file> | hv selftest | hv list");
    }
    install_quiet_panic_hook();
    match hv::nat::selftest(GOLDEN) {
        Ok(n) => {
            if args[0] == "selftest" {
                println!("Nat oracle self-test: {} checks passed", n);
                return;
            }
        }
        Err(e) => die2(&format!("Nat oracle self-test failed: {}", e)),
    }
    if args[0] == "list" {
        for p in props::all() {
            println!("{}", p.id);
            for s in &p.suites {
                println!("   {:<18} quick={} thorough={}  {}", s.name, s.quick_cases, s.thorough_cases, s.about);
            }
        }
        return;
    }
    let id = args[0].clone();
    let prop = props::get(&id).unwrap_or_else(|| die2(&format!("unknown property {}", id)));

    // ---- single replay ------------------------------------------------------------------------
    if args.len() >= 3 && args[1] == "--replay" {
        let path = PathBuf::from(&args[2]);
        let rf = load_replay(&path).unwrap_or_else(|e| die2(&e));
        if rf.property != id {
            die2(&format!("replay file is for property {}, not {}", rf.property, id));
        }
        let suite = prop.suites.iter().find(|s| s.name == rf.suite).unwrap_or_else(|| die2(&format!("unknown suite {}", rf.suite)));
        match run_replay(suite, &rf) {
            Err(e) => die2(&e),
            Ok(r) => {
                if let Some(d) = &r.desc {
                    println!("case: {}", serde_json::to_string_pretty(d).unwrap());
                }
                match r.verdict {
                    Verdict::Pass => {
                        println!("replay: property {} holds on this input", id);
                        std::process::exit(0)
                    }
                    Verdict::Known(kid, what) => {
                        println!("KNOWN-FINDING: property={} {} {}", id, kid, what);
                        std::process::exit(0)
                    }
                    Verdict::Fail(m) => {
                        println!("failure: {}", m);
                        println!("VIOLATION property={} replay={}", id, path.display());
                        std::process::exit(1)
                    }
                }
            }
        }
    }

    let tier = args
        .get(1)
        .cloned()
        .or_else(|| std::env::var("VERIF_TIER").ok())
        .unwrap_or_else(|| "quick".into());
    if tier != "quick" && tier != "thorough" {
        die2(&format!("unknown tier {}", tier));
    }
    let seed: u64 = std::env::var("VERIF_SEED").ok().and_then(|s| s.trim().parse::<i128>().ok()).map(|v| v as u64).unwrap_or(0);
    let scale: f64 = std::env::var("HV_SCALE").ok().and_then(|s| s.parse().ok()).unwrap_or(1.0);
    let only_suite = std::env::var("HV_SUITE").ok();
    let workers: usize = std::env::var("HV_WORKERS")
        .ok()
        .and_then(|s| s.parse().ok())
        .unwrap_or(if tier == "quick" { 8 } else { 16 });
    let timer = Timer::start();

    // evidence is rewritten on every run: remove the stale file first
    let _ = std::fs::remove_file(verif_root().join("evidence").join(format!("{}.json", id)));

    let mut known_lines: Vec<String> = vec![];
    let mut violations: Vec<(String, PathBuf)> = vec![];

    // ---- replay tier ----------------------------------------------------------------------------
    let files = replay_files_for(&id);
    let mut replay_cases = 0u64;
    let mut replay_names = vec![];
    for path in &files {
        let rf = load_replay(path).unwrap_or_else(|e| die2(&e));
        if rf.property != id {
            continue;
        }
        let suite = match prop.suites.iter().find(|s| s.name == rf.suite) {
            Some(s) => s,
            None => die2(&format!("{}: unknown suite {}", path.display(), rf.suite)),
        };
        let r = run_replay(suite, &rf).unwrap_or_else(|e| die2(&format!("{}: {}", path.display(), e)));
        replay_cases += 1;
        replay_names.push(path.strip_prefix(verif_root()).unwrap_or(path).display().to_string());
        match r.verdict {
            Verdict::Pass => {}
            Verdict::Known(kid, what) => {
                let line = format!("KNOWN-FINDING: property={} {} {}", id, kid, what);
                if !known_lines.iter().any(|l| l.contains(kid)) {
                    known_lines.push(line);
                }
            }
            Verdict::Fail(m) => {
                println!("failure (replay tier): {}", m);
                violations.push((m, path.clone()));
            }
        }
    }

    // ---- generated tier -------------------------------------------------------------------------
    let mut outcomes: Vec<(usize, SuiteOutcome, u64)> = vec![];
    if violations.is_empty() && std::env::var("HV_ONLY_FUZZ").is_err() {
        for (i, suite) in prop.suites.iter().enumerate() {
            if let Some(o) = &only_suite {
                if o != suite.name {
                    continue;
                }
            }
            let base = if tier == "quick" { suite.quick_cases } else { suite.thorough_cases };
            let cases = ((base as f64 * scale) as u64).max(1);
            let out = run_suite(&id, suite, seed, cases, workers);
            if let Some(m) = &out.internal {
                die2(m);
            }
            let failed = out.failure.is_some();
            if let Some(f) = &out.failure {
                let path = write_found(&id, f);
                println!("failure (suite {}): {}", suite.name, f.message);
                if let Some(d) = &f.desc {
                    let mut d = d.clone();
                    if let Some(o) = d.as_object_mut() {
                        o.remove("concrete");
                    }
                    println!("shrunk case: {}", serde_json::to_string(&d).unwrap());
                }
                violations.push((f.message.clone(), path));
            }
            for (kid, ex) in &out.stats.known_examples {
                // a listed finding was hit by the search (counted, excluded from the verdict)
                if !known_lines.iter().any(|l| l.contains(kid)) {
                    known_lines.push(format!("KNOWN-FINDING: property={} {} {}", id, kid, ex));
                }
            }
            outcomes.push((i, out, cases));
            if failed {
                break;
            }
        }
    }

    // ---- coverage-guided stage (thorough tier only) --------------------------------------------------
    let mut fuzz_report = json!({"ran": false});
    if tier == "thorough" && violations.is_empty() && std::env::var("HV_NO_FUZZ").is_err() {
        fuzz_report = fuzz_stage(&id, &prop, seed, scale, &mut violations);
    }

    for l in &known_lines {
        println!("{}", l);
    }

    let mut warn = vec![];
    for (i, o, _) in &outcomes {
        let s = &prop.suites[*i];
        for c in s.must_hit {
            if !o.stats.classes.contains_key(c) {
                warn.push(format!("suite {}: required class '{}' not populated", s.name, c));
            }
        }
    }
    for w in &warn {
        eprintln!("hv: WARNING: {}", w);
    }

    let ev = EvidenceInput {
        property: &id,
        tier: &tier,
        seed,
        rule: prop.rule,
        assumptions: prop.assumptions,
        suites: outcomes.iter().map(|(i, o, c)| (&prop.suites[*i], &o.stats, *c)).collect(),
        replay_cases,
        replay_files: replay_names,
        violations: violations.len() as u64,
        known_lines: known_lines.clone(),
        wall_s: timer.secs(),
        extra: json!({"workers": workers, "vacuity_warnings": warn, "listed_known_findings": known::listed_ids(&id), "coverage_guided_stage": fuzz_report,
            "function_level_suites_disabled": hv::direct::disabled().iter().map(|f| format!("{}: the harness could not be built against the current signature of this helper; its function-level suite was not run", f)).collect::<Vec<_>>()}),
        exhaustive: false,
    };
    let evp = write_evidence(&ev);
    let total: u64 = outcomes.iter().map(|(_, o, _)| o.stats.evaluations).sum();
    let nt: u64 = outcomes.iter().map(|(_, o, _)| o.stats.distinct.len() as u64).sum();
    eprintln!(
        "hv: {} {} seed={} replay_cases={} generated={} distinct_nontrivial={} wall={:.1}s evidence={}",
        id, tier, seed, replay_cases, total, nt, timer.secs(), evp.display()
    );
    if let Some((_, path)) = violations.first() {
        println!("VIOLATION property={} replay={}", id, path.display());
        std::process::exit(1);
    }
    println!("OK property={} tier={} held on {} replayed + {} generated cases", id, tier, replay_cases, total);
}
