//! KNOWN_FINDINGS.txt reader.  The file is committed, line-oriented and never written at run time.
//!
//!   known: property=<id> id=<KF-ID> example=<replay file relative to /verif> :: <what fails>
//!   fixed: property=<id> <commit> <what failed>
//!
//! A failing case is suppressed only if its property has a `known:` line whose id names the
//! root-cause predicate that the check function evaluated to true for that very case.

use crate::engine::{verif_root, Verdict};
use std::collections::BTreeSet;
use std::sync::OnceLock;

#[derive(Debug, Clone)]
pub struct KnownEntry {
    pub property: String,
    pub id: String,
    pub example: Option<String>,
    pub what: String,
}

static LISTED: OnceLock<Vec<KnownEntry>> = OnceLock::new();

fn parse(text: &str) -> Vec<KnownEntry> {
    let mut out = vec![];
    for line in text.lines() {
        let line = line.trim();
        if !line.starts_with("known:") {
            continue;
        }
        let (head, what) = match line.split_once("::") {
            Some((h, w)) => (h, w.trim().to_string()),
            None => (line, String::new()),
        };
        let mut e = KnownEntry { property: String::new(), id: String::new(), example: None, what };
        for tok in head["known:".len()..].split_whitespace() {
            if let Some(v) = tok.strip_prefix("property=") {
                e.property = v.to_string();
            } else if let Some(v) = tok.strip_prefix("id=") {
                e.id = v.to_string();
            } else if let Some(v) = tok.strip_prefix("example=") {
                e.example = Some(v.to_string());
            }
        }
        if !e.property.is_empty() && !e.id.is_empty() {
            out.push(e);
        }
    }
    out
}

pub fn listed() -> &'static Vec<KnownEntry> {
    LISTED.get_or_init(|| {
        let p = verif_root().join("KNOWN_FINDINGS.txt");
        parse(&std::fs::read_to_string(p).unwrap_or_default())
    })
}

pub fn is_listed(property: &str, id: &str) -> bool {
    listed().iter().any(|e| e.property == property && e.id == id)
}

pub fn listed_ids(property: &str) -> BTreeSet<String> {
    listed().iter().filter(|e| e.property == property).map(|e| e.id.clone()).collect()
}

/// A case matched the root-cause predicate `id`: suppressed (counted) only if listed for `property`.
pub fn known_or_fail(property: &str, id: &'static str, what: String) -> Verdict {
    if is_listed(property, id) {
        Verdict::Known(id, what)
    } else {
        Verdict::Fail(format!("{} [matches finding predicate {} which is NOT listed for {} in KNOWN_FINDINGS.txt]", what, id, property))
    }
}
