//! Generation of world configurations and operation histories from a choice tape.
//!
//! A step is decoded against the *current* world state (amounts are fractions of live balances and
//! reserves, indices select live accounts), so every prefix of a shrunk history stays meaningful.

use crate::engine::Src;
use crate::gen::{gen_rate_atomics, E18};
use crate::nat::n;
use crate::world::*;
use cosmwasm_std::{to_binary, Coin, Decimal, Uint128};
use cw20::Cw20ExecuteMsg;
use haloswap::asset::{Asset, AssetInfo};
use haloswap::pair::{Cw20HookMsg as PairHook, ExecuteMsg as PairExec};
use haloswap::router::{Cw20HookMsg as RouterHook, ExecuteMsg as RouterExec, SwapOperation};

pub const HEAD_LEN: usize = 48;
pub const OP_LEN: usize = 24;
/// the last EXTRA_LEN words of an op chunk are reserved for oracle-side probes
pub const EXTRA_LEN: usize = 8;

#[derive(Clone, Debug)]
pub struct Profile {
    pub name: &'static str,
    /// weights: provide, withdraw, swap (native entry), swap (cw20 hook), donate asset, donate LP,
    /// router route, change allowance, forged/internal garbage, owner administration (decimals
    /// re-registration, config update, pair migration)
    pub w: [u32; 10],
    /// probability (x/16) that a swap/provide message gets an adversarial shape
    pub adversarial_16: u64,
    /// probability (x/16) that attached funds are played with (less/more/absent/extra)
    pub funds_games_16: u64,
    /// probability (x/16) that a direct swap also carries a coin of the pair's other native denom
    pub extra_ask_16: u64,
    /// probability (x/16) that a direct swap or a provision also carries a STRAY coin: one of a denom that is
    /// no asset of the pair (it changes no reserve, so quotes, prices and shares must be unaffected)
    pub stray_coin_16: u64,
    pub max_pairs: usize,
    /// router worlds want a connected asset graph
    pub connected: bool,
    /// bias toward hostile magnitudes (C20)
    pub hostile: bool,
    /// property-specific generator consulted first (may decline by returning None)
    pub special: Option<fn(&World, &mut Src, &Profile, &mut GenState, usize) -> Option<Step>>,
}

pub const MIXED: Profile = Profile { name: "mixed", w: [10, 6, 10, 8, 3, 1, 4, 2, 1, 1], adversarial_16: 2, extra_ask_16: 1, stray_coin_16: 1, funds_games_16: 1, max_pairs: 3, connected: false, hostile: false, special: None };
pub const SWAPPY: Profile = Profile { name: "swappy", w: [6, 2, 14, 12, 2, 0, 4, 0, 0, 1], adversarial_16: 3, extra_ask_16: 2, stray_coin_16: 1, funds_games_16: 1, max_pairs: 3, connected: false, hostile: false, special: None };
pub const SETTLE: Profile = Profile { name: "settlement", w: [6, 2, 12, 14, 2, 1, 2, 0, 0, 0], adversarial_16: 9, extra_ask_16: 1, stray_coin_16: 1, funds_games_16: 5, max_pairs: 3, connected: false, hostile: false, special: None };
pub const FUNDS: Profile = Profile { name: "funds", w: [12, 1, 14, 6, 1, 0, 0, 0, 0, 0], adversarial_16: 3, extra_ask_16: 1, stray_coin_16: 0, funds_games_16: 11, max_pairs: 2, connected: false, hostile: false, special: None };
pub const LIQUIDITY: Profile = Profile { name: "liquidity", w: [12, 12, 6, 5, 4, 2, 1, 2, 0, 1], adversarial_16: 1, extra_ask_16: 1, stray_coin_16: 1, funds_games_16: 0, max_pairs: 2, connected: false, hostile: false, special: None };
pub const HOSTILE: Profile = Profile { name: "hostile", w: [8, 3, 10, 8, 8, 2, 2, 0, 0, 1], adversarial_16: 0, extra_ask_16: 2, stray_coin_16: 1, funds_games_16: 0, max_pairs: 2, connected: false, hostile: true, special: None };
pub const ROUTES: Profile = Profile { name: "routes", w: [8, 2, 5, 4, 1, 0, 12, 0, 0, 0], adversarial_16: 0, extra_ask_16: 1, stray_coin_16: 0, funds_games_16: 0, max_pairs: 5, connected: true, hostile: false, special: None };

const COMMISSIONS: [Option<u128>; 8] = [None, Some(0), Some(1), Some(30_000_000_000_000_000), Some(E18 / 2), Some(E18 - 1), Some(E18), Some(3_000_000_000_000_000)];

pub fn gen_world_cfg(s: &mut Src, prof: &Profile) -> WorldCfg {
    let n_nat = if prof.connected { 2 + s.idx(2) } else { 2 + s.idx(2) };
    let n_tok = 2 + s.idx(2);
    let dec = |s: &mut Src| -> u8 {
        match s.weighted(&[4, 3, 2, 2]) {
            0 => 6,
            1 => 18,
            2 => 0,
            _ => s.below(19) as u8,
        }
    };
    let native_decimals: Vec<u8> = (0..n_nat).map(|_| dec(s)).collect();
    let token_decimals: Vec<u8> = (0..n_tok).map(|_| dec(s)).collect();
    let assets: Vec<AssetId> = (0..n_nat).map(AssetId::Native).chain((0..n_tok).map(AssetId::Token)).collect();
    let n_pairs = 1 + s.idx(prof.max_pairs);
    let mut pairs: Vec<PairCfg> = vec![];
    let mut tries = 0;
    while pairs.len() < n_pairs && tries < 20 {
        tries += 1;
        // force every pair kind to occur: kind is drawn first
        let kind = s.idx(3);
        let (a, b) = match kind {
            0 => {
                let i = s.idx(n_nat);
                let j = (i + 1 + s.idx(n_nat - 1)) % n_nat;
                (AssetId::Native(i), AssetId::Native(j))
            }
            1 => (AssetId::Native(s.idx(n_nat)), AssetId::Token(s.idx(n_tok))),
            _ => {
                let i = s.idx(n_tok);
                let j = (i + 1 + s.idx(n_tok - 1)) % n_tok;
                (AssetId::Token(i), AssetId::Token(j))
            }
        };
        let (a, b) = if prof.connected && !pairs.is_empty() && s.chance(3, 4) {
            // attach to an asset already in the graph so that multi-hop routes exist
            let prev = pairs[s.idx(pairs.len())].assets[s.idx(2)];
            let other = assets[s.idx(assets.len())];
            (prev, other)
        } else {
            (a, b)
        };
        if a == b || pairs.iter().any(|p| (p.assets[0] == a && p.assets[1] == b) || (p.assets[0] == b && p.assets[1] == a)) {
            continue;
        }
        let (a, b) = if s.bool() { (b, a) } else { (a, b) };
        let commission = COMMISSIONS[s.weighted(&[6, 2, 1, 2, 1, 1, 1, 0])];
        let commission = if s.chance(1, 6) { Some(gen_rate_atomics(s)) } else { commission };
        let whitelist: Vec<usize> = match s.weighted(&[5, 2, 1]) {
            0 => vec![0, 1, 2, 3],
            1 => vec![0, 1],
            _ => vec![1],
        };
        let minimum = match s.weighted(&[5, 2, 1]) {
            0 => [0, 0],
            1 => [1 + s.below(1000) as u128, 1 + s.below(1000) as u128],
            _ => [s.bits_u128(40), s.bits_u128(40)],
        };
        let lp_decimals = match s.weighted(&[3, 1, 1]) {
            0 => None,
            1 => Some(6),
            _ => Some(s.below(19) as u8),
        };
        pairs.push(PairCfg { assets: [a, b], commission, whitelist, minimum, lp_decimals });
    }
    if pairs.is_empty() {
        pairs.push(PairCfg { assets: [AssetId::Native(0), AssetId::Native(1)], commission: None, whitelist: vec![0, 1, 2, 3], minimum: [0, 0], lp_decimals: None });
    }
    // One world in eight (not in the route-centred profiles, DESIGN F12) names its last native denom exactly
    // like the first cw20 token's contract address: the two are different assets (the KIND decides), and
    // half of these worlds trade them against each other in their first pair.
    let mut denoms: Vec<String> = vec![];
    if !prof.connected && s.chance(1, 8) {
        denoms = DENOMS.iter().take(n_nat).map(|d| d.to_string()).collect();
        denoms[n_nat - 1] = FIRST_TOKEN_ADDR.to_string();
        if s.bool() {
            let (a, b) = (AssetId::Token(0), AssetId::Native(n_nat - 1));
            if !pairs.iter().skip(1).any(|p| (p.assets[0] == a && p.assets[1] == b) || (p.assets[0] == b && p.assets[1] == a)) {
                pairs[0].assets = if s.bool() { [a, b] } else { [b, a] };
            }
        }
    }
    // holders' balances (and with them every token's total supply) are astronomically larger than any pool in
    // half of the worlds, and of pool-like magnitude in the others
    let initial_balance: u128 = match s.weighted(&[2, 1, 1]) {
        0 => 1u128 << 122,
        1 => 1u128 << 64,
        _ => 1u128 << 36,
    };
    // one world in four is built in stages: its denoms start with other decimals, the first pair is created,
    // the denoms are re-registered with their final decimals and only then the other pairs are created
    let staged_decimals: Vec<u8> = if s.chance(1, 4) { native_decimals.iter().map(|d| if s.bool() { (*d + 1 + s.below(17) as u8) % 19 } else { *d }).collect() } else { vec![] };
    WorldCfg {
        native_decimals,
        token_decimals,
        pairs,
        n_actors: 4,
        n_bystanders: 2,
        initial_balance,
        allowance: 1u128 << 124,
        denoms,
        unregistered: vec![],
        staged_decimals,
        // half of the worlds: the holders' allowance toward the router is one their balances can cover
        // (2^0 .. 2^35), or absent
        router_allowance: match s.weighted(&[4, 3, 1]) {
            0 => 0,
            1 => 1 + s.below(36) as u8,
            _ => 255,
        },
        peer_allowance: s.chance(1, 2),
        separate_factory_admin: false,
    }
}

fn bits(v: u128) -> u32 {
    128 - v.leading_zeros()
}

/// a fraction of `base`: log-uniform magnitude, never above base
pub fn frac(s: &mut Src, base: u128) -> u128 {
    if base == 0 {
        s.u64();
        s.u64();
        return 0;
    }
    let e = s.below(bits(base) as u64 + 1) as u32;
    let m = s.range(1, 65536) as u128;
    let v = n(base).mul(&n(m)).div(&n(65536)).to_u128().unwrap_or(base);
    (v >> e.min(127)).min(base)
}

pub fn amount(s: &mut Src, base: u128) -> u128 {
    match s.weighted(&[12, 1, 1, 1, 1, 1]) {
        0 => frac(s, base).max(1).min(base.max(1)),
        1 => base,
        2 => base.saturating_sub(1),
        3 => 1,
        4 => 2,
        _ => 0,
    }
}

fn who(w: &World, s: &mut Src) -> String {
    match s.weighted(&[3, 2, 2]) {
        0 => w.actors[s.idx(w.actors.len())].to_string(),
        1 => w.bystanders[s.idx(w.bystanders.len())].to_string(),
        _ => fresh_addr(s.idx(3)).to_string(),
    }
}

fn opt_rate(s: &mut Src) -> Option<Decimal> {
    match s.weighted(&[6, 3, 1]) {
        0 => None,
        1 => Some(Decimal::new(Uint128::new(gen_rate_atomics(s)))),
        _ => Some(Decimal::new(Uint128::new(E18 + s.bits_u128(62)))),
    }
}

fn funds_for(w: &World, s: &mut Src, prof: &Profile, named: &[(String, u128)], pair: usize) -> Vec<Coin> {
    // named: native denoms named by the message with their declared amounts
    let mut coins: Vec<(String, u128)> = named.iter().filter(|(_, a)| *a > 0).cloned().collect();
    let mut repeat = false;
    if s.below(16) < prof.funds_games_16 {
        match s.weighted(&[3, 3, 3, 3, 2, 2, 2, 1]) {
            7 if coins.len() >= 2 => {
                // one named coin is missing and a REPEAT of the other named coin stands in its place (a chain
                // refuses a coin list that repeats a denom before any contract runs; the test chain does not,
                // and the only thing judged here is unambiguous either way: the missing denom was not attached)
                let keep = s.idx(2);
                let c = coins[keep].clone();
                coins = vec![c.clone(), c];
                repeat = true;
            }
            6 => {
                // the named amount arrives under the upper-case LOOK-ALIKE of the denom (a different coin), with
                // nothing, one unit or a random amount of the true denom beside it
                if let Some((d, v)) = coins.first().cloned() {
                    let up = d.to_uppercase();
                    if up != d && w.balance(&AssetInfo::NativeToken { denom: up.clone() }, "actor0") > 0 {
                        coins.remove(0);
                        coins.push((up, v.max(1)));
                        match s.below(3) {
                            0 => {}
                            1 => coins.push((d, 1)),
                            _ => coins.push((d, 1 + s.bits_u128(40))),
                        }
                    }
                }
            }
            0 => {
                // less
                if let Some(c) = coins.first_mut() {
                    c.1 = c.1.saturating_sub(1 + s.below(3) as u128);
                }
            }
            1 => {
                // more
                if let Some(c) = coins.first_mut() {
                    c.1 = c.1.saturating_add(1 + s.below(3) as u128);
                }
            }
            2 => {
                // absent
                if !coins.is_empty() {
                    let i = s.idx(coins.len());
                    coins.remove(i);
                }
            }
            3 => {
                // extra unrelated coin
                let d = w.natives[s.idx(w.natives.len())].clone();
                if !coins.iter().any(|(x, _)| *x == d) {
                    coins.push((d, 1 + s.below(1000) as u128));
                }
            }
            4 => {
                // the pair's other native denom attached although not named (or under a different amount)
                for info in &w.pairs[pair].infos {
                    if let AssetInfo::NativeToken { denom } = info {
                        if !coins.iter().any(|(x, _)| x == denom) {
                            coins.push((denom.clone(), 1 + s.bits_u128(30)));
                        }
                    }
                }
            }
            _ => {
                // random amount
                if let Some(c) = coins.first_mut() {
                    c.1 = s.bits_u128(100);
                }
            }
        }
    }
    let mut out: Vec<Coin> = coins.into_iter().filter(|(_, a)| *a > 0).map(|(d, a)| Coin { denom: d, amount: Uint128::new(a) }).collect();
    out.sort_by(|a, b| a.denom.cmp(&b.denom));
    if !repeat {
        out.dedup_by(|a, b| a.denom == b.denom);
    }
    out
}

/// the asset of the other kind with the same spelling
pub fn flip_kind(a: &AssetInfo) -> AssetInfo {
    match a {
        AssetInfo::NativeToken { denom } => AssetInfo::Token { contract_addr: denom.clone() },
        AssetInfo::Token { contract_addr } => AssetInfo::NativeToken { denom: contract_addr.clone() },
    }
}

fn other_asset(w: &World, s: &mut Src, not_in_pair: usize) -> AssetInfo {
    let all = w.all_assets();
    let cands: Vec<AssetId> = all.into_iter().filter(|a| !w.pairs[not_in_pair].assets.contains(a)).collect();
    if cands.is_empty() {
        AssetInfo::NativeToken { denom: "unknown".into() }
    } else {
        w.asset_info(cands[s.idx(cands.len())])
    }
}

pub fn gen_provide(w: &World, s: &mut Src, prof: &Profile) -> Step {
    let p = s.idx(w.pairs.len());
    let pr = &w.pairs[p];
    let (r0, r1, sup) = w.pool(p);
    let actor = if sup == 0 && !pr.cfg.whitelist.is_empty() && s.chance(3, 4) {
        w.actors[pr.cfg.whitelist[s.idx(pr.cfg.whitelist.len())]].clone()
    } else {
        w.actors[s.idx(w.actors.len())].clone()
    };
    let b0 = w.balance(&pr.infos[0], actor.as_str());
    let b1 = w.balance(&pr.infos[1], actor.as_str());
    let cap = |s: &mut Src, b: u128| -> u128 {
        let top = if prof.hostile { s.range(1, 110) } else if s.chance(1, 5) { s.range(60, 100) } else { s.range(1, 64) } as u32;
        amount(s, b.min((1u128 << top) - 1))
    };
    let (d0, d1) = if sup == 0 || r0 == 0 || r1 == 0 || s.chance(1, 4) {
        (cap(s, b0).max(s.below(2) as u128), cap(s, b1).max(s.below(2) as u128))
    } else {
        // balanced against the reserves, then perturbed
        let d0 = cap(s, b0.min(r0.saturating_mul(4))).max(1);
        let d1 = n(d0).mul(&n(r1)).div_ceil(&n(r0)).to_u128().unwrap_or(u128::MAX).min(b1);
        let d1 = match s.below(4) {
            0 => d1.saturating_add(s.below(3) as u128),
            1 => d1.saturating_sub(s.below(3) as u128),
            _ => d1,
        };
        (d0, d1)
    };
    let mut assets = [Asset { info: pr.infos[0].clone(), amount: Uint128::new(d0) }, Asset { info: pr.infos[1].clone(), amount: Uint128::new(d1) }];
    if s.chance(1, 3) {
        assets.swap(0, 1);
    }
    if s.below(16) < prof.adversarial_16 {
        match s.below(5) {
            0 => assets[1].info = other_asset(w, s, p),
            1 => assets[1] = assets[0].clone(),
            2 => assets[0].amount = Uint128::zero(),
            3 => assets[0].info = other_asset(w, s, p),
            _ => {
                // the same spelling under the other asset KIND: a native side named as a cw20 "contract", a
                // cw20 side named as a native denom (a different asset in both cases)
                let i = s.idx(2);
                assets[i].info = flip_kind(&assets[i].info);
            }
        }
    }
    let named: Vec<(String, u128)> = assets
        .iter()
        .filter_map(|a| if let AssetInfo::NativeToken { denom } = &a.info { Some((denom.clone(), a.amount.u128())) } else { None })
        .collect();
    let mut funds = funds_for(w, s, prof, &named, p);
    add_stray_coin(w, s, prof, p, actor.as_str(), &mut funds);
    let receiver = match s.weighted(&[18, 11, 1]) {
        0 => None,
        1 => Some(who(w, s)),
        // the share goes to a contract of the pair's household: the pair itself, its LP token, the factory
        _ => Some([w.pairs[p].addr.to_string(), w.pairs[p].lp.to_string(), w.factory.to_string()][s.idx(3)].clone()),
    };
    Step {
        sender: actor.to_string(),
        call: Call::Pair { pair: p, msg: PairExec::ProvideLiquidity { assets, slippage_tolerance: opt_rate(s), receiver } },
        funds,
    }
}

pub fn gen_withdraw(w: &World, s: &mut Src, _prof: &Profile) -> Step {
    let p = s.idx(w.pairs.len());
    let pr = &w.pairs[p];
    // prefer a holder that actually has LP tokens
    let mut holders: Vec<String> = w.holders().iter().map(|h| h.to_string()).chain((0..3).map(|i| fresh_addr(i).to_string())).collect();
    let start = s.idx(holders.len());
    holders.rotate_left(start);
    let holder = holders.iter().find(|h| w.cw20_balance(pr.lp.as_str(), h) > 0).cloned().unwrap_or_else(|| holders[0].clone());
    let bal = w.cw20_balance(pr.lp.as_str(), &holder);
    let amt = amount(s, bal);
    // 1 time in 6 (worlds with peer allowances, holder an actor): the NEXT actor, to which the holder granted an
    // allowance on the LP token, delivers the holder's LP tokens through `SendFrom` - and is the one paid
    let go = s.chance(1, 6);
    if go && w.cfg.peer_allowance {
        if let Some(i) = w.actors.iter().position(|a| a.as_str() == holder) {
            let spender = w.actors[(i + 1) % w.actors.len()].to_string();
            return Step {
                sender: spender,
                call: Call::Cw20 { token: pr.lp.to_string(), msg: Cw20ExecuteMsg::SendFrom { owner: holder, contract: pr.addr.to_string(), amount: Uint128::new(amt), msg: to_binary(&PairHook::WithdrawLiquidity {}).unwrap() } },
                funds: vec![],
            };
        }
    }
    Step {
        sender: holder,
        call: Call::Cw20 { token: pr.lp.to_string(), msg: Cw20ExecuteMsg::Send { contract: pr.addr.to_string(), amount: Uint128::new(amt), msg: to_binary(&PairHook::WithdrawLiquidity {}).unwrap() } },
        funds: vec![],
    }
}

fn offer_amount(w: &World, s: &mut Src, prof: &Profile, p: usize, side: usize, actor: &str) -> u128 {
    let pr = &w.pairs[p];
    let (r0, r1, _) = w.pool(p);
    let r = if side == 0 { r0 } else { r1 };
    let bal = w.balance(&pr.infos[side], actor);
    let base = match s.weighted(&[5, 3, 1]) {
        0 => r.saturating_mul(2).max(16),
        1 => r / 16 + 1,
        _ => bal,
    };
    let base = if prof.hostile && s.chance(1, 3) { bal } else { base };
    amount(s, base.min(bal)).max(s.below(2) as u128)
}

/// a swap through the pair's execute entry (native offer asset when well formed)
pub fn gen_swap_exec(w: &World, s: &mut Src, prof: &Profile) -> Step {
    // prefer pairs that have a native asset
    let cands: Vec<usize> = (0..w.pairs.len()).filter(|&i| w.pairs[i].infos.iter().any(|a| a.is_native_token())).collect();
    let p = if cands.is_empty() || s.chance(1, 10) { s.idx(w.pairs.len()) } else { cands[s.idx(cands.len())] };
    let pr = &w.pairs[p];
    let natives: Vec<usize> = (0..2).filter(|&i| pr.infos[i].is_native_token()).collect();
    let side = if natives.is_empty() { s.idx(2) } else { natives[s.idx(natives.len())] };
    let actor = w.actors[s.idx(w.actors.len())].to_string();
    let amt = offer_amount(w, s, prof, p, side, &actor);
    let mut offer = Asset { info: pr.infos[side].clone(), amount: Uint128::new(amt) };
    let mut delivered: Vec<(String, u128)> = vec![];
    if let AssetInfo::NativeToken { denom } = &offer.info {
        delivered.push((denom.clone(), amt));
    }
    if s.below(16) < prof.adversarial_16 {
        match s.below(7) {
            0 => offer.info = pr.infos[1 - side].clone(), // names the other pair asset, delivers this one
            6 => {
                // names - and, where the actor holds such a coin, delivers - the native denom spelled like one
                // of the pair's cw20 assets: a different asset that must not be priced as that token
                if let Some(tok) = pr.infos.iter().find(|a| !a.is_native_token()) {
                    let alias = flip_kind(tok);
                    let bal = w.balance(&alias, &actor);
                    offer.info = alias.clone();
                    if bal > 0 {
                        let a = amount(s, bal.min(amt.max(1).saturating_mul(4))).max(1);
                        offer.amount = Uint128::new(a);
                        if let AssetInfo::NativeToken { denom } = &alias {
                            delivered = vec![(denom.clone(), a)];
                        }
                    }
                } else {
                    offer.info = other_asset(w, s, p);
                }
            }
            1 => offer.info = other_asset(w, s, p),
            2 => offer.amount = Uint128::new(amt.saturating_add(1)),
            3 => offer.amount = Uint128::new(amt.saturating_sub(1)),
            4 => offer.amount = Uint128::zero(),
            _ => offer.amount = Uint128::new(s.bits_u128(100)),
        }
    }
    // attached funds follow what is *delivered*; funds games may alter them further
    let extra_ask = s.below(16) < prof.extra_ask_16;
    let funds = if extra_ask {
        // the exact offer plus a coin of the pair's OTHER native denom, of a magnitude comparable to
        // the reserve (a surplus the pair was told nothing about)
        let mut f: Vec<Coin> = delivered.iter().filter(|(_, a)| *a > 0).map(|(d, a)| Coin { denom: d.clone(), amount: Uint128::new(*a) }).collect();
        if let AssetInfo::NativeToken { denom } = &pr.infos[1 - side] {
            let (r0, r1, _) = w.pool(p);
            let ry = if side == 0 { r1 } else { r0 };
            let bal = w.balance(&pr.infos[1 - side], &actor);
            let extra = amount(s, ry.saturating_mul(2).max(4).min(bal)).max(1);
            if !f.iter().any(|c| c.denom == *denom) {
                f.push(Coin { denom: denom.clone(), amount: Uint128::new(extra) });
            }
        }
        f.sort_by(|a, b| a.denom.cmp(&b.denom));
        f
    } else if s.below(16) < prof.funds_games_16 {
        let named: Vec<(String, u128)> = if let AssetInfo::NativeToken { denom } = &offer.info { vec![(denom.clone(), offer.amount.u128())] } else { vec![] };
        funds_for(w, s, prof, &named, p)
    } else {
        delivered.into_iter().filter(|(_, a)| *a > 0).map(|(d, a)| Coin { denom: d, amount: Uint128::new(a) }).collect()
    };
    let mut funds = funds;
    add_stray_coin(w, s, prof, p, &actor, &mut funds);
    let to = swap_receiver(w, s, p);
    let (belief_price, max_spread) = guard_params(s);
    Step { sender: actor, call: Call::Pair { pair: p, msg: PairExec::Swap { offer_asset: offer, belief_price, max_spread, to } }, funds }
}

/// In worlds with peer allowances every actor may spend the balance of the actor BEFORE it in the cycle
/// (which granted it an allowance on every asset and LP token): 1 time in 6 the hook is delivered through
/// `SendFrom` out of that actor's balance. Returns the owner whose tokens are spent.
fn spend_for(w: &World, s: &mut Src, actor: &str) -> Option<String> {
    let go = s.chance(1, 6);
    if !go || !w.cfg.peer_allowance {
        return None;
    }
    let n = w.actors.len();
    let i = w.actors.iter().position(|a| a.as_str() == actor)?;
    Some(w.actors[(i + n - 1) % n].to_string())
}

/// the `to` of a direct or hook swap: absent, a user account, or (1 in 12) a string that is no valid address
/// - too short, or the upper-case spelling of an account - which the pair must refuse, not silently replace
fn swap_receiver(w: &World, s: &mut Src, p: usize) -> Option<String> {
    match s.weighted(&[14, 8, 2, 1]) {
        0 => None,
        1 => Some(who(w, s)),
        // a CONTRACT of the pair's own household as the designated receiver: the pair itself, its LP token or
        // one of its cw20 asset contracts (a valid address like any other: the proceeds must go there)
        3 => {
            let pr = &w.pairs[p];
            let mut c: Vec<String> = vec![pr.addr.to_string(), pr.lp.to_string()];
            for i in &pr.infos {
                if let AssetInfo::Token { contract_addr } = i {
                    if w.tokens.iter().any(|t| t.addr.as_str() == contract_addr) {
                        c.push(contract_addr.clone());
                    }
                }
            }
            Some(c[s.idx(c.len())].clone())
        }
        _ => Some(match s.below(3) {
            0 => "ab".to_string(),
            1 => w.actors[s.idx(w.actors.len())].to_string().to_uppercase(),
            _ => String::new(),
        }),
    }
}

/// a coin of a denom that is no asset of the pair (the upper-case look-alike of a native denom, which every
/// holder owns, or another native denom of the world)
fn add_stray_coin(w: &World, s: &mut Src, prof: &Profile, p: usize, actor: &str, funds: &mut Vec<Coin>) {
    if s.below(16) >= prof.stray_coin_16 {
        return;
    }
    let in_pair = |d: &str| w.pairs[p].infos.iter().any(|a| matches!(a, AssetInfo::NativeToken { denom } if denom == d));
    let mut cands: Vec<String> = w.natives.iter().filter(|d| !in_pair(d)).cloned().collect();
    cands.extend(w.natives.iter().map(|d| d.to_uppercase()).filter(|u| !w.natives.contains(u)));
    cands.retain(|d| !funds.iter().any(|c| c.denom == *d) && w.balance(&AssetInfo::NativeToken { denom: d.clone() }, actor) > 0);
    if cands.is_empty() {
        return;
    }
    let d = cands[s.idx(cands.len())].clone();
    funds.push(Coin { denom: d, amount: Uint128::new(1 + s.bits_u128(40)) });
    funds.sort_by(|a, b| a.denom.cmp(&b.denom));
}

fn guard_params(s: &mut Src) -> (Option<Decimal>, Option<Decimal>) {
    match s.weighted(&[6, 2, 2, 1]) {
        0 => (None, None),
        1 => (None, Some(Decimal::new(Uint128::new(gen_rate_atomics(s))))),
        2 => (Some(Decimal::new(Uint128::new(s.bits_u128(80).max(1)))), Some(Decimal::new(Uint128::new(gen_rate_atomics(s))))),
        _ => (Some(Decimal::new(Uint128::new(s.bits_u128(80)))), None),
    }
}

/// a swap through a cw20 Send hook
pub fn gen_swap_hook(w: &World, s: &mut Src, prof: &Profile) -> Step {
    let cands: Vec<usize> = (0..w.pairs.len()).filter(|&i| w.pairs[i].infos.iter().any(|a| !a.is_native_token())).collect();
    let adversarial = s.below(16) < prof.adversarial_16;
    let p = if cands.is_empty() { s.idx(w.pairs.len()) } else { cands[s.idx(cands.len())] };
    let pr = &w.pairs[p];
    let toks: Vec<usize> = (0..2).filter(|&i| !pr.infos[i].is_native_token()).collect();
    let actor = w.actors[s.idx(w.actors.len())].to_string();
    let owner = spend_for(w, s, &actor);
    let payer = owner.clone().unwrap_or_else(|| actor.clone());
    // the token that is actually sent
    let (sent_token, side): (String, Option<usize>) = if toks.is_empty() || (adversarial && s.chance(1, 6)) {
        // an outsider token (or any token when the pair has none)
        (w.tokens[s.idx(w.tokens.len())].addr.to_string(), None)
    } else {
        let sd = toks[s.idx(toks.len())];
        (match &pr.infos[sd] { AssetInfo::Token { contract_addr } => contract_addr.clone(), _ => unreachable!() }, Some(sd))
    };
    let amt = match side {
        Some(sd) => offer_amount(w, s, prof, p, sd, &payer),
        None => amount(s, 1 << 40),
    };
    let mut offer = Asset { info: AssetInfo::Token { contract_addr: sent_token.clone() }, amount: Uint128::new(amt) };
    if adversarial {
        match s.below(7) {
            0 | 1 => {
                // names the pair's other asset
                if let Some(sd) = side {
                    offer.info = pr.infos[1 - sd].clone();
                }
            }
            2 => offer.info = other_asset(w, s, p),
            3 => offer.amount = Uint128::new(amt.saturating_add(1)),
            4 => offer.amount = Uint128::new(amt.saturating_sub(1)),
            5 => offer.amount = Uint128::zero(),
            _ => offer.amount = Uint128::new(s.bits_u128(100)),
        }
    }
    let to = swap_receiver(w, s, p);
    let (belief_price, max_spread) = guard_params(s);
    let hook = PairHook::Swap { offer_asset: offer, belief_price, max_spread, to };
    let msg = match owner {
        Some(owner) => Cw20ExecuteMsg::SendFrom { owner, contract: pr.addr.to_string(), amount: Uint128::new(amt), msg: to_binary(&hook).unwrap() },
        None => Cw20ExecuteMsg::Send { contract: pr.addr.to_string(), amount: Uint128::new(amt), msg: to_binary(&hook).unwrap() },
    };
    Step { sender: actor, call: Call::Cw20 { token: sent_token, msg }, funds: vec![] }
}

pub fn gen_donate(w: &World, s: &mut Src, prof: &Profile) -> Step {
    let p = s.idx(w.pairs.len());
    let pr = &w.pairs[p];
    let side = s.idx(2);
    let actor = w.holders()[s.idx(w.holders().len())].to_string();
    let bal = w.balance(&pr.infos[side], &actor);
    let top = if prof.hostile { s.range(1, 120) } else { s.range(1, 100) } as u32;
    let amt = amount(s, bal.min((1u128 << top) - 1)).max(1);
    // in router-centred worlds a quarter of the donations go to the router (leftover balances)
    let target = if prof.connected && s.chance(1, 4) { w.router.to_string() } else { pr.addr.to_string() };
    match &pr.infos[side] {
        AssetInfo::NativeToken { denom } => Step { sender: actor, call: Call::Bank { to: target, coins: vec![Coin { denom: denom.clone(), amount: Uint128::new(amt) }] }, funds: vec![] },
        AssetInfo::Token { contract_addr } => Step {
            sender: actor,
            call: Call::Cw20 { token: contract_addr.clone(), msg: Cw20ExecuteMsg::Transfer { recipient: target, amount: Uint128::new(amt) } },
            funds: vec![],
        },
    }
}

pub fn gen_donate_lp(w: &World, s: &mut Src, _prof: &Profile) -> Step {
    let p = s.idx(w.pairs.len());
    let pr = &w.pairs[p];
    let hs = w.holders();
    let holder = hs.iter().find(|h| w.cw20_balance(pr.lp.as_str(), h.as_str()) > 0).cloned().unwrap_or_else(|| hs[0].clone());
    let bal = w.cw20_balance(pr.lp.as_str(), holder.as_str());
    let amt = amount(s, bal).max(1);
    if s.chance(1, 4) {
        // the holder destroys its own LP tokens at the LP token contract: the supply shrinks without any
        // pair operation, which only raises the value of everybody else's share
        return Step { sender: holder.to_string(), call: Call::Cw20 { token: pr.lp.to_string(), msg: Cw20ExecuteMsg::Burn { amount: Uint128::new(amt) } }, funds: vec![] };
    }
    // (the recipient is the pair, an account, or - 1 time in 8 - a CONTRACT that is no cw20 receiver: the
    // forwarding proxy or the factory; a contract is a holder like any other)
    let to = match s.weighted(&[8, 7, 1]) {
        0 => pr.addr.to_string(),
        1 => who(w, s),
        _ => if s.bool() { w.proxy.to_string() } else { w.factory.to_string() },
    };
    Step { sender: holder.to_string(), call: Call::Cw20 { token: pr.lp.to_string(), msg: Cw20ExecuteMsg::Transfer { recipient: to, amount: Uint128::new(amt) } }, funds: vec![] }
}

/// a random walk over the pair graph: 1..=4 hops
pub fn gen_route_ops(w: &World, s: &mut Src, distinct_pairs: bool) -> Vec<(usize, usize)> {
    // returns (pair index, offer side) per hop
    let mut hops: Vec<(usize, usize)> = vec![];
    let n_hops = 1 + s.weighted(&[3, 4, 3, 2]);
    let p0 = s.idx(w.pairs.len());
    let side0 = s.idx(2);
    hops.push((p0, side0));
    let mut cur = w.pairs[p0].assets[1 - side0];
    while hops.len() < n_hops {
        let cands: Vec<(usize, usize)> = (0..w.pairs.len())
            .flat_map(|i| (0..2).map(move |sd| (i, sd)))
            .filter(|(i, sd)| w.pairs[*i].assets[*sd] == cur && (!distinct_pairs || !hops.iter().any(|(j, _)| j == i)))
            .collect();
        if cands.is_empty() {
            break;
        }
        let (i, sd) = cands[s.idx(cands.len())];
        hops.push((i, sd));
        cur = w.pairs[i].assets[1 - sd];
    }
    hops
}

pub fn route_operations(w: &World, hops: &[(usize, usize)]) -> Vec<SwapOperation> {
    hops.iter()
        .map(|(p, sd)| SwapOperation::HaloSwap { offer_asset_info: w.pairs[*p].infos[*sd].clone(), ask_asset_info: w.pairs[*p].infos[1 - *sd].clone() })
        .collect()
}

pub fn route_step(w: &World, actor: &str, hops: &[(usize, usize)], amt: u128, minimum_receive: Option<u128>, to: Option<String>) -> Step {
    let ops = route_operations(w, hops);
    let first = &w.pairs[hops[0].0].infos[hops[0].1];
    match first {
        AssetInfo::NativeToken { denom } => Step {
            sender: actor.to_string(),
            call: Call::Router { msg: RouterExec::ExecuteSwapOperations { operations: ops, minimum_receive: minimum_receive.map(Uint128::new), to } },
            funds: if amt > 0 { vec![Coin { denom: denom.clone(), amount: Uint128::new(amt) }] } else { vec![] },
        },
        AssetInfo::Token { contract_addr } => Step {
            sender: actor.to_string(),
            call: Call::Cw20 {
                token: contract_addr.clone(),
                msg: Cw20ExecuteMsg::Send {
                    contract: w.router.to_string(),
                    amount: Uint128::new(amt),
                    msg: to_binary(&RouterHook::ExecuteSwapOperations { operations: ops, minimum_receive: minimum_receive.map(Uint128::new), to }).unwrap(),
                },
            },
            funds: vec![],
        },
    }
}

pub fn gen_route(w: &World, s: &mut Src, prof: &Profile) -> Step {
    let distinct = s.chance(3, 4);
    let hops = gen_route_ops(w, s, distinct);
    let actor = w.actors[s.idx(w.actors.len())].to_string();
    let amt = offer_amount(w, s, prof, hops[0].0, hops[0].1, &actor).max(1);
    let minimum = match s.weighted(&[10, 4, 2, 1]) {
        0 => None,
        1 => Some(s.bits_u128(40)),
        2 => Some(0),
        _ => Some(if s.bool() { u128::MAX - s.below(2) as u128 } else { (1u128 << 127) + s.bits_u128(20) }),
    };
    let to = if s.chance(2, 5) { Some(who(w, s)) } else { None };
    let mut st = route_step(w, &actor, &hops, amt, minimum, to);
    attach_extra_route_coin(w, s, prof, &hops, &mut st);
    st
}

/// Funds game on the router's native entry: besides the input, the call attaches a coin of another native
/// denom (preferably one the route trades, so that a hop finds it in the router). Such a coin is the
/// trader's own money parked in the router; no pair may receive it unless a hop offers that denom.
pub fn attach_extra_route_coin(w: &World, s: &mut Src, prof: &Profile, hops: &[(usize, usize)], st: &mut Step) {
    if st.funds.len() != 1 || !s.chance(prof.extra_ask_16 as u64, 16) {
        return;
    }
    let input = st.funds[0].denom.clone();
    let mut cands: Vec<String> = vec![];
    for (p, _) in hops {
        for a in w.pairs[*p].infos.iter() {
            if let AssetInfo::NativeToken { denom } = a {
                if *denom != input && !cands.contains(denom) {
                    cands.push(denom.clone());
                }
            }
        }
    }
    if cands.is_empty() || s.chance(1, 4) {
        cands = w.natives.iter().filter(|d| **d != input).cloned().collect();
    }
    if cands.is_empty() {
        return;
    }
    let d = cands[s.idx(cands.len())].clone();
    let width = 1 + s.below(70) as u32;
    let amt = 1 + s.bits_u128(width);
    st.funds.push(Coin { denom: d, amount: Uint128::new(amt) });
}

pub fn gen_allowance(w: &World, s: &mut Src, _prof: &Profile) -> Step {
    let t = &w.tokens[s.idx(w.tokens.len())];
    let h = w.holders()[s.idx(w.holders().len())].to_string();
    let spender = if s.chance(1, 4) { w.router.to_string() } else { w.pairs[s.idx(w.pairs.len())].addr.to_string() };
    let amt = s.bits_u128(100).max(1);
    let msg = match s.weighted(&[3, 2, 2]) {
        0 => Cw20ExecuteMsg::IncreaseAllowance { spender, amount: Uint128::new(amt), expires: None },
        1 => Cw20ExecuteMsg::DecreaseAllowance { spender, amount: Uint128::new(amt), expires: None },
        // revoke: the holder's allowance toward this spender drops to zero (cw20-base removes it), so a
        // later deposit by this holder cannot be pulled - and must not be pulled from anyone else
        _ => Cw20ExecuteMsg::DecreaseAllowance { spender, amount: Uint128::new(u128::MAX >> 1), expires: None },
    };
    Step { sender: h, call: Call::Cw20 { token: t.addr.to_string(), msg }, funds: vec![] }
}

/// forged internal / privileged calls from ordinary actors (all must be rejected; C14 enumerates
/// them systematically, here they are noise inside histories)
pub fn gen_forged(w: &World, s: &mut Src, _prof: &Profile) -> Step {
    let actor = w.actors[s.idx(w.actors.len())].to_string();
    let p = s.idx(w.pairs.len());
    match s.below(8) {
        7 => {
            // the router's public cw20 `Receive` entry hand-delivered by an ordinary account (no token was
            // sent), its free `sender` field naming ANOTHER holder - every holder has an open allowance toward
            // the router - with a route whose first hop offers a cw20 asset: nothing of that holder may move
            let others: Vec<String> = w.holders().iter().map(|h| h.to_string()).filter(|h| *h != actor).collect();
            let victim = others[s.idx(others.len())].clone();
            let cands: Vec<(usize, usize)> = (0..w.pairs.len()).flat_map(|i| (0..2).map(move |k| (i, k))).filter(|(i, k)| !w.pairs[*i].infos[*k].is_native_token()).collect();
            // (only while the router holds none of the offered token: then no reading of the call can move anything)
            let cands: Vec<(usize, usize)> = cands.into_iter().filter(|(i, k)| w.balance(&w.pairs[*i].infos[*k], w.router.as_str()) == 0).collect();
            if cands.is_empty() {
                return Step { sender: actor.clone(), call: Call::Router { msg: RouterExec::AssertMinimumReceive { asset_info: w.pairs[p].infos[0].clone(), prev_balance: Uint128::zero(), minimum_receive: Uint128::zero(), receiver: actor } }, funds: vec![] };
            }
            let (pi, side) = cands[s.idx(cands.len())];
            let pr = &w.pairs[pi];
            let ops = vec![SwapOperation::HaloSwap { offer_asset_info: pr.infos[side].clone(), ask_asset_info: pr.infos[1 - side].clone() }];
            let to = match s.below(3) { 0 => None, 1 => Some(actor.clone()), _ => Some(who(w, s)) };
            let hook = RouterHook::ExecuteSwapOperations { operations: ops, minimum_receive: None, to };
            Step { sender: actor, call: Call::Router { msg: RouterExec::Receive(cw20::Cw20ReceiveMsg { sender: victim, amount: Uint128::new(1 + s.bits_u128(60)), msg: to_binary(&hook).unwrap() }) }, funds: vec![] }
        }
        5 | 6 => {
            // a cw20 ASSET token (not the LP token) delivers the withdraw hook: `Send` of the asset to the pair
            // with the WithdrawLiquidity payload, of any magnitude up to the actor's balance
            let tok = w.tokens[s.idx(w.tokens.len())].addr.to_string();
            let bal = w.cw20_balance(&tok, &actor);
            let amt = amount(s, bal).max(1);
            Step { sender: actor, call: Call::Cw20 { token: tok, msg: Cw20ExecuteMsg::Send { contract: w.pairs[p].addr.to_string(), amount: Uint128::new(amt), msg: to_binary(&PairHook::WithdrawLiquidity {}).unwrap() } }, funds: vec![] }
        }
        0 => Step { sender: actor, call: Call::Pair { pair: p, msg: PairExec::UpdateNativeTokenDecimals { denom: w.natives[0].clone(), asset_decimals: [s.below(19) as u8, s.below(19) as u8] } }, funds: vec![] },
        1 => Step {
            sender: actor.clone(),
            call: Call::Pair { pair: p, msg: PairExec::Receive(cw20::Cw20ReceiveMsg { sender: actor, amount: Uint128::new(1 + s.bits_u128(60)), msg: to_binary(&PairHook::WithdrawLiquidity {}).unwrap() }) },
            funds: vec![],
        },
        2 => {
            let pr = &w.pairs[p];
            let hook = PairHook::Swap { offer_asset: Asset { info: pr.infos[s.idx(2)].clone(), amount: Uint128::new(1000) }, belief_price: None, max_spread: None, to: None };
            Step { sender: actor.clone(), call: Call::Pair { pair: p, msg: PairExec::Receive(cw20::Cw20ReceiveMsg { sender: actor, amount: Uint128::new(1000), msg: to_binary(&hook).unwrap() }) }, funds: vec![] }
        }
        3 => {
            let pr = &w.pairs[p];
            Step {
                sender: actor,
                call: Call::Router { msg: RouterExec::ExecuteSwapOperation { operation: SwapOperation::HaloSwap { offer_asset_info: pr.infos[0].clone(), ask_asset_info: pr.infos[1].clone() }, to: None } },
                funds: vec![],
            }
        }
        _ => Step {
            sender: actor.clone(),
            call: Call::Router { msg: RouterExec::AssertMinimumReceive { asset_info: w.pairs[p].infos[0].clone(), prev_balance: Uint128::zero(), minimum_receive: Uint128::zero(), receiver: actor } },
            funds: vec![],
        },
    }
}

/// generator state carried across the operations of one history (quotes taken earlier, the
/// reference delivery of a route computed on a fork ...)
#[derive(Default, Debug, Clone)]
pub struct GenState {
    /// swap orders quoted in an earlier state and executed later with guard parameters derived from
    /// the stale quote: (pair, offer side, actor, offer amount, quoted return, quoted spread)
    pub pending_swaps: Vec<(usize, usize, String, u128, u128, u128)>,
    /// provisions balanced against reserves of an earlier state: (pair, actor, d0, d1)
    pub pending_provides: Vec<(usize, String, u128, u128)>,
    /// for the route generated last: what the same route delivers without minimum_receive on a fork
    pub route_reference: Option<Option<u128>>,
    pub step_no: usize,
}

/// owner administration interleaved with trading: re-registration of a native denom's decimals (the
/// factory then pushes an update to every pair trading it), a configuration update, a pair migration
pub fn gen_admin(w: &World, s: &mut Src, _prof: &Profile) -> Step {
    let owner = w.owner.to_string();
    let msg = match s.weighted(&[7, 1, 2, 1, 1]) {
        // the owner addresses a PAIR directly with the decimals update that only the factory may send
        4 => {
            let p = s.idx(w.pairs.len());
            let denom = w.natives[s.idx(w.natives.len())].clone();
            return Step { sender: owner, call: Call::Pair { pair: p, msg: PairExec::UpdateNativeTokenDecimals { denom, asset_decimals: [s.below(19) as u8, s.below(19) as u8] } }, funds: vec![] };
        }
        0 => haloswap::factory::ExecuteMsg::AddNativeTokenDecimals { denom: w.natives[s.idx(w.natives.len())].clone(), decimals: s.below(19) as u8 },
        // the default pair code changes to the second stored copy of the pair code (or back)
        1 => haloswap::factory::ExecuteMsg::UpdateConfig { owner: None, token_code_id: Some(w.codes.cw20), pair_code_id: Some(if s.bool() { w.codes.pair } else { w.codes.pair_alt }) },
        2 => haloswap::factory::ExecuteMsg::MigratePair {
            contract: w.pairs[s.idx(w.pairs.len())].addr.to_string(),
            code_id: match s.below(3) { 0 => Some(w.codes.pair), 1 => Some(w.codes.pair_alt), _ => None },
        },
        // the factory itself is migrated (to its own code) by its chain-level admin, the owner
        _ => return Step { sender: w.factory_admin.to_string(), call: Call::Migrate { contract: w.factory.to_string(), code_id: w.codes.factory }, funds: vec![] },
    };
    Step { sender: owner, call: Call::Factory { msg }, funds: vec![] }
}

pub const KIND_NAMES: [&str; 10] = ["op:provide", "op:withdraw", "op:swap-exec", "op:swap-hook", "op:donate", "op:donate-lp", "op:route", "op:allowance", "op:forged", "op:admin"];

pub fn gen_step(w: &World, s: &mut Src, prof: &Profile, gs: &mut GenState) -> (Step, usize) {
    let mut kind = s.weighted(&prof.w);
    if w.tokens.is_empty() && (kind == 3 || kind == 7) {
        kind = 2;
    }
    gs.step_no += 1;
    gs.route_reference = None;
    if let Some(f) = prof.special {
        if let Some(st) = f(w, s, prof, gs, kind) {
            return (st, kind);
        }
    }
    let st = match kind {
        0 => gen_provide(w, s, prof),
        1 => gen_withdraw(w, s, prof),
        2 => gen_swap_exec(w, s, prof),
        3 => gen_swap_hook(w, s, prof),
        4 => gen_donate(w, s, prof),
        5 => gen_donate_lp(w, s, prof),
        6 => gen_route(w, s, prof),
        7 => gen_allowance(w, s, prof),
        8 => gen_forged(w, s, prof),
        _ => gen_admin(w, s, prof),
    };
    (st, kind)
}

/// An initial well-formed provision for pair p by a whitelisted actor (used as a setup step so that
/// histories start from pools with liquidity; executed and checked like every other step).
pub fn gen_seed_liquidity(w: &World, s: &mut Src, p: usize, prof: &Profile) -> Step {
    let pr = &w.pairs[p];
    let actor = w.actors[pr.cfg.whitelist[s.idx(pr.cfg.whitelist.len())]].to_string();
    let mag = |s: &mut Src| -> u128 {
        let top = match s.weighted(&[6, 3, 2, 1]) {
            0 => s.range(20, 50),
            1 => s.range(50, 64),
            2 => s.range(1, 20),
            _ => if prof.hostile { s.range(64, 100) } else { s.range(64, 90) },
        } as u32;
        (1u128 << (top - 1)) | (s.u128() & ((1u128 << (top - 1)) - 1))
    };
    let d0 = mag(s).max(pr.cfg.minimum[0]).max(1);
    let d1 = mag(s).max(pr.cfg.minimum[1]).max(1);
    let assets = [Asset { info: pr.infos[0].clone(), amount: Uint128::new(d0) }, Asset { info: pr.infos[1].clone(), amount: Uint128::new(d1) }];
    let mut funds: Vec<Coin> = assets
        .iter()
        .filter_map(|a| if let AssetInfo::NativeToken { denom } = &a.info { Some(Coin { denom: denom.clone(), amount: a.amount }) } else { None })
        .collect();
    funds.sort_by(|a, b| a.denom.cmp(&b.denom));
    Step { sender: actor, call: Call::Pair { pair: p, msg: PairExec::ProvideLiquidity { assets, slippage_tolerance: None, receiver: None } }, funds }
}

// ------------------------------------------------------------------------------------------------
// well-formed building blocks and the quote-then-execute generators (C10, C12, C15 system level)

pub fn wellformed_swap(w: &World, pair: usize, side: usize, actor: &str, amt: u128, belief: Option<Decimal>, max_spread: Option<Decimal>, to: Option<String>) -> Step {
    let pr = &w.pairs[pair];
    let offer = Asset { info: pr.infos[side].clone(), amount: Uint128::new(amt) };
    match &pr.infos[side] {
        AssetInfo::NativeToken { denom } => Step {
            sender: actor.to_string(),
            call: Call::Pair { pair, msg: PairExec::Swap { offer_asset: offer, belief_price: belief, max_spread, to } },
            funds: if amt > 0 { vec![Coin { denom: denom.clone(), amount: Uint128::new(amt) }] } else { vec![] },
        },
        AssetInfo::Token { contract_addr } => Step {
            sender: actor.to_string(),
            call: Call::Cw20 {
                token: contract_addr.clone(),
                msg: Cw20ExecuteMsg::Send {
                    contract: pr.addr.to_string(),
                    amount: Uint128::new(amt),
                    msg: to_binary(&PairHook::Swap { offer_asset: offer, belief_price: belief, max_spread, to }).unwrap(),
                },
            },
            funds: vec![],
        },
    }
}

pub fn simulate(w: &World, pair: usize, side: usize, amt: u128) -> Result<haloswap::pair::SimulationResponse, String> {
    let pr = &w.pairs[pair];
    w.query(pr.addr.as_str(), &haloswap::pair::QueryMsg::Simulation { offer_asset: Asset { info: pr.infos[side].clone(), amount: Uint128::new(amt) } })
}

fn dec_from_ratio(num: &crate::nat::Nat, den: &crate::nat::Nat) -> Option<Decimal> {
    if den.is_zero() {
        return None;
    }
    num.mul(&crate::nat::Nat::e18()).div(den).to_u128().map(|a| Decimal::new(Uint128::new(a)))
}

/// C10 system level: orders are quoted in one state and executed later, after other traders' swaps.
pub fn special_guarded(w: &World, s: &mut Src, prof: &Profile, gs: &mut GenState, kind: usize) -> Option<Step> {
    if kind != 2 && kind != 3 {
        return None;
    }
    if !gs.pending_swaps.is_empty() && s.chance(1, 2) {
        let (p, side, actor, amt, qret, _qspread) = gs.pending_swaps.remove(0);
        let od = w.asset_decimals(w.pairs[p].assets[side]) as u32;
        let rd = w.asset_decimals(w.pairs[p].assets[1 - side]) as u32;
        let o_norm = n(amt).mul(&crate::nat::Nat::pow10(rd.saturating_sub(od)));
        let r_norm = n(qret).mul(&crate::nat::Nat::pow10(od.saturating_sub(rd)));
        let max_spread = match s.weighted(&[3, 2, 2, 2, 2, 1]) {
            0 => 0,
            1 => E18 / 1000,
            2 => E18 / 100,
            3 => E18 / 2,
            4 => gen_rate_atomics(s),
            _ => E18,
        };
        let mode = s.weighted(&[5, 4, 1]);
        let belief = match s.weighted(&[4, 2, 2, 1, 1]) {
            0 => dec_from_ratio(&o_norm, &r_norm),                                           // the quoted price
            1 => dec_from_ratio(&o_norm.mul(&n(1000)), &r_norm.mul(&n(1000 + s.below(20) as u128))), // slightly optimistic
            2 => dec_from_ratio(&o_norm.mul(&n(1000 + s.below(20) as u128)), &r_norm.mul(&n(1000))), // slightly pessimistic
            3 => dec_from_ratio(&n(amt), &n(qret)),                                          // raw, decimals ignored
            _ => Some(Decimal::new(Uint128::new(s.bits_u128(90).max(1)))),
        };
        let (belief, ms) = match mode {
            0 => (belief, Some(Decimal::new(Uint128::new(max_spread)))),
            1 => (None, Some(Decimal::new(Uint128::new(max_spread)))),
            _ => (belief, None),
        };
        let to = if s.chance(1, 4) { Some(who(w, s)) } else { None };
        return Some(wellformed_swap(w, p, side, &actor, amt, belief, ms, to));
    }
    // take a quote now; the order is executed by a later operation
    let p = s.idx(w.pairs.len());
    let side = s.idx(2);
    let actor = w.actors[s.idx(w.actors.len())].to_string();
    let amt = offer_amount(w, s, prof, p, side, &actor).max(1);
    if let Ok(q) = simulate(w, p, side, amt) {
        if gs.pending_swaps.len() < 4 {
            gs.pending_swaps.push((p, side, actor, amt, q.return_amount.u128(), q.spread_amount.u128()));
        }
    }
    None
}

/// C15 system level: deposits are balanced against the reserves of an earlier state and provided
/// later with a tolerance, after other actors' swaps.
pub fn special_slippage(w: &World, s: &mut Src, _prof: &Profile, gs: &mut GenState, kind: usize) -> Option<Step> {
    if kind != 0 {
        return None;
    }
    if !gs.pending_provides.is_empty() && s.chance(2, 3) {
        let (p, actor, d0, d1) = gs.pending_provides.remove(0);
        let pr = &w.pairs[p];
        let tol = match s.weighted(&[2, 2, 2, 2, 3, 1]) {
            0 => 0,
            1 => E18 / 1000,
            2 => E18 / 100,
            3 => E18 / 2,
            4 => gen_rate_atomics(s),
            _ => E18,
        };
        let mut assets = [Asset { info: pr.infos[0].clone(), amount: Uint128::new(d0) }, Asset { info: pr.infos[1].clone(), amount: Uint128::new(d1) }];
        if s.chance(1, 3) {
            assets.swap(0, 1);
        }
        let mut funds: Vec<Coin> = assets
            .iter()
            .filter_map(|a| if let AssetInfo::NativeToken { denom } = &a.info { if a.amount.u128() > 0 { Some(Coin { denom: denom.clone(), amount: a.amount }) } else { None } } else { None })
            .collect();
        funds.sort_by(|a, b| a.denom.cmp(&b.denom));
        return Some(Step {
            sender: actor,
            call: Call::Pair { pair: p, msg: PairExec::ProvideLiquidity { assets, slippage_tolerance: Some(Decimal::new(Uint128::new(tol))), receiver: None } },
            funds,
        });
    }
    let p = s.idx(w.pairs.len());
    let (r0, r1, sup) = w.pool(p);
    if sup == 0 && s.chance(1, 2) {
        // An unminted pair: reserves can only come from plain transfers.  Build that state up (send the side
        // that is still empty), and once both sides hold something let a whitelisted actor open the pair WITH
        // a tolerance - the guard must judge the deposit against those reserves like against any others.
        let pr = &w.pairs[p];
        let donor = w.holders()[s.idx(w.holders().len())].to_string();
        for (i, r) in [(0usize, r0), (1usize, r1)] {
            if r == 0 {
                let wd = 1 + s.below(40) as u32;
                let amt = 1 + s.bits_u128(wd);
                return Some(match &pr.infos[i] {
                    AssetInfo::NativeToken { denom } => Step { sender: donor, call: Call::Bank { to: pr.addr.to_string(), coins: vec![Coin { denom: denom.clone(), amount: Uint128::new(amt) }] }, funds: vec![] },
                    AssetInfo::Token { contract_addr } => Step { sender: donor, call: Call::Cw20 { token: contract_addr.clone(), msg: Cw20ExecuteMsg::Transfer { recipient: pr.addr.to_string(), amount: Uint128::new(amt) } }, funds: vec![] },
                });
            }
        }
        let actor = if pr.cfg.whitelist.is_empty() { w.actors[s.idx(w.actors.len())].to_string() } else { w.actors[pr.cfg.whitelist[s.idx(pr.cfg.whitelist.len())]].to_string() };
        let wd0 = 1 + s.below(50) as u32;
        let wd1 = 1 + s.below(50) as u32;
        let d0 = (1 + s.bits_u128(wd0)).max(pr.cfg.minimum[0]);
        let d1 = match s.below(3) {
            0 => n(d0).mul(&n(r1)).div_ceil(&n(r0)).to_u128().unwrap_or(u128::MAX).max(1), // proportional to the donated reserves
            1 => d0,
            _ => 1 + s.bits_u128(wd1),
        }
        .max(pr.cfg.minimum[1]);
        let tol = match s.weighted(&[2, 2, 2, 3]) {
            0 => 0,
            1 => E18 / 100,
            2 => E18 / 2,
            _ => gen_rate_atomics(s),
        };
        let assets = [Asset { info: pr.infos[0].clone(), amount: Uint128::new(d0) }, Asset { info: pr.infos[1].clone(), amount: Uint128::new(d1) }];
        let mut funds: Vec<Coin> = assets.iter().filter_map(|a| if let AssetInfo::NativeToken { denom } = &a.info { Some(Coin { denom: denom.clone(), amount: a.amount }) } else { None }).collect();
        funds.sort_by(|a, b| a.denom.cmp(&b.denom));
        return Some(Step { sender: actor, call: Call::Pair { pair: p, msg: PairExec::ProvideLiquidity { assets, slippage_tolerance: Some(Decimal::new(Uint128::new(tol))), receiver: None } }, funds });
    }
    if sup > 0 && r0 > 0 && r1 > 0 && gs.pending_provides.len() < 4 {
        let actor = w.actors[s.idx(w.actors.len())].to_string();
        let b0 = w.balance(&w.pairs[p].infos[0], &actor);
        let d0 = amount(s, b0.min(r0.saturating_mul(2)).min((1u128 << 100) - 1)).max(1);
        let d1 = n(d0).mul(&n(r1)).div_ceil(&n(r0)).to_u128().unwrap_or(u128::MAX).max(1);
        let d1 = match s.below(4) {
            0 => d1.saturating_add(s.below(3) as u128),
            1 => d1.saturating_sub(s.below(3) as u128).max(1),
            _ => d1,
        };
        gs.pending_provides.push((p, actor, d0, d1));
    }
    None
}

pub const GUARDED: Profile = Profile { name: "guarded", w: [5, 2, 16, 14, 2, 0, 3, 0, 0, 1], adversarial_16: 0, extra_ask_16: 0, stray_coin_16: 1, funds_games_16: 0, max_pairs: 3, connected: false, hostile: false, special: Some(special_guarded) };
pub const SLIPPAGE: Profile = Profile { name: "slippage", w: [16, 3, 10, 8, 3, 0, 2, 0, 0, 1], adversarial_16: 0, extra_ask_16: 1, stray_coin_16: 1, funds_games_16: 0, max_pairs: 2, connected: false, hostile: false, special: Some(special_slippage) };
pub const QUOTES: Profile = Profile { name: "quotes", w: [6, 3, 14, 12, 3, 0, 4, 0, 0, 1], adversarial_16: 0, extra_ask_16: 0, stray_coin_16: 2, funds_games_16: 0, max_pairs: 3, connected: false, hostile: false, special: None };

// ------------------------------------------------------------------------------------------------
// router-centred generation (C11, C13)

/// the same route message without a minimum_receive
pub fn without_minimum(step: &Step) -> Step {
    let mut st = step.clone();
    match &mut st.call {
        Call::Router { msg: RouterExec::ExecuteSwapOperations { minimum_receive, .. } } => *minimum_receive = None,
        Call::Cw20 { msg: Cw20ExecuteMsg::Send { msg, .. }, .. } => {
            if let Ok(RouterHook::ExecuteSwapOperations { operations, to, .. }) = cosmwasm_std::from_binary::<RouterHook>(msg) {
                *msg = to_binary(&RouterHook::ExecuteSwapOperations { operations, minimum_receive: None, to }).unwrap();
            }
        }
        _ => {}
    }
    st
}

/// what the recipient nets in the final asset: balance growth plus what it paid itself in that asset
pub fn route_net_growth(rec: &StepRecord, ops: &[SwapOperation], delivered: &(AssetInfo, u128), sender: &str, receiver: &str) -> Option<i128> {
    let last = ops.last()?;
    let SwapOperation::HaloSwap { ask_asset_info, .. } = last;
    let paid: i128 = if sender != receiver {
        0
    } else if let AssetInfo::NativeToken { denom } = ask_asset_info {
        // every attached coin of that denom (the input and any further coin)
        rec.step.funds.iter().filter(|c| c.denom == *denom).map(|c| c.amount.u128() as i128).sum()
    } else if delivered.0 == *ask_asset_info {
        delivered.1 as i128
    } else {
        0
    };
    Some(rec.delta(ask_asset_info, receiver) + paid)
}

pub fn special_routes(w: &World, s: &mut Src, prof: &Profile, gs: &mut GenState, kind: usize) -> Option<Step> {
    if kind != 6 {
        return None;
    }
    let distinct = s.chance(7, 8);
    let hops = gen_route_ops(w, s, distinct);
    let actor = w.actors[s.idx(w.actors.len())].to_string();
    let amt = offer_amount(w, s, prof, hops[0].0, hops[0].1, &actor).max(1);
    let to = match s.weighted(&[6, 2, 4, 4, 1]) {
        0 => None,
        1 => Some(actor.clone()),
        2 => Some(w.actors[s.idx(w.actors.len())].to_string()),
        3 => Some(fresh_addr(s.idx(3)).to_string()),
        // the router itself is named as the recipient: it is an account like any other for the minimum-receive
        // guarantee (C13's pass-through statement does not apply to such a route)
        _ => Some(w.router.to_string()),
    };
    // malformed shapes (must be rejected): empty, forked, disconnected
    let shape = s.weighted(&[12, 1, 1, 2]);
    if shape != 0 {
        let mut ops = route_operations(w, &hops);
        match shape {
            1 => ops.clear(),
            2 => {
                // fork: a second hop from the same offer asset to a different ask
                let all = w.all_assets();
                let other = w.asset_info(all[s.idx(all.len())]);
                if let Some(SwapOperation::HaloSwap { offer_asset_info, .. }) = ops.first().cloned() {
                    ops.push(SwapOperation::HaloSwap { offer_asset_info, ask_asset_info: other });
                }
            }
            _ => {
                // a disconnected hop: half of them trade a real pair (so that the hop can execute if the router
                // finds its offer asset), the others name two arbitrary assets
                let all = w.all_assets();
                let (a, b) = if s.bool() {
                    let p = s.idx(w.pairs.len());
                    let sd = s.idx(2);
                    (w.pairs[p].infos[sd].clone(), w.pairs[p].infos[1 - sd].clone())
                } else {
                    (w.asset_info(all[s.idx(all.len())]), w.asset_info(all[s.idx(all.len())]))
                };
                let at = s.idx(ops.len() + 1);
                ops.insert(at, SwapOperation::HaloSwap { offer_asset_info: a, ask_asset_info: b });
            }
        }
        let first = &w.pairs[hops[0].0].infos[hops[0].1];
        let minimum_receive = if s.bool() { Some(Uint128::new(s.bits_u128(30))) } else { None };
        // a second leg can only execute if the router finds its offer asset: in half of the native-entry
        // cases the call also attaches a coin of every native asset that some hop offers without an earlier
        // hop producing it, so that an accepted malformed route really runs
        let mut extra: Vec<Coin> = vec![];
        if let AssetInfo::NativeToken { denom: first_denom } = first {
            if s.bool() {
                let mut produced: Vec<AssetInfo> = vec![first.clone()];
                for SwapOperation::HaloSwap { offer_asset_info, ask_asset_info } in ops.iter() {
                    if let AssetInfo::NativeToken { denom } = offer_asset_info {
                        if !produced.contains(offer_asset_info) && denom != first_denom && !extra.iter().any(|c| c.denom == *denom) && w.natives.contains(denom) {
                            extra.push(Coin { denom: denom.clone(), amount: Uint128::new(1 + s.bits_u128(40)) });
                        }
                    }
                    produced.push(ask_asset_info.clone());
                }
            }
        }
        return Some(match first {
            AssetInfo::NativeToken { denom } => Step {
                sender: actor,
                call: Call::Router { msg: RouterExec::ExecuteSwapOperations { operations: ops, minimum_receive, to } },
                funds: std::iter::once(Coin { denom: denom.clone(), amount: Uint128::new(amt) }).chain(extra).collect(),
            },
            AssetInfo::Token { contract_addr } => Step {
                sender: actor,
                call: Call::Cw20 {
                    token: contract_addr.clone(),
                    msg: Cw20ExecuteMsg::Send { contract: w.router.to_string(), amount: Uint128::new(amt), msg: to_binary(&RouterHook::ExecuteSwapOperations { operations: ops, minimum_receive, to }).unwrap() },
                },
                funds: vec![],
            },
        });
    }
    // reference delivery D: the same route without minimum_receive on a fork of this world
    let mut plain = route_step(w, &actor, &hops, amt, None, to.clone());
    attach_extra_route_coin(w, s, prof, &hops, &mut plain);
    let funds = plain.funds.clone();
    let ops = route_operations(w, &hops);
    let first = w.pairs[hops[0].0].infos[hops[0].1].clone();
    let receiver = to.clone().unwrap_or_else(|| actor.clone());
    let mut f = w.fork();
    let rec = f.exec(plain);
    let d = if rec.outcome.is_ok() { route_net_growth(&rec, &ops, &(first, amt), &actor, &receiver).map(|v| v.max(0) as u128) } else { None };
    gs.route_reference = Some(d);
    let minimum = match d {
        Some(d) => match s.weighted(&[2, 3, 3, 3, 1, 1, 2]) {
            0 => Some(0),
            1 => Some(d.saturating_sub(1)),
            2 => Some(d),
            3 => Some(d.saturating_add(1)),
            4 => Some(d.saturating_mul(2)),
            // a bound of any width up to the full 128 bits, or one of the largest values (a bound nobody can
            // meet must still be a bound)
            5 => Some(match s.below(4) {
                0 => s.bits_u128(100),
                1 => s.bits_u128(128),
                2 => u128::MAX - s.below(3) as u128,
                _ => (1u128 << 127) + s.below(3) as u128 - 1,
            }),
            _ => None,
        },
        None => if s.bool() { Some(s.bits_u128(40)) } else { None },
    };
    let mut st = route_step(w, &actor, &hops, amt, minimum, to);
    st.funds = funds;
    Some(st)
}

pub const ROUTER: Profile = Profile { name: "router", w: [7, 2, 5, 4, 2, 0, 14, 0, 0, 0], adversarial_16: 0, extra_ask_16: 2, stray_coin_16: 0, funds_games_16: 0, max_pairs: 5, connected: true, hostile: false, special: Some(special_routes) };
