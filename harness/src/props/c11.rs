//! C11 — Router delivers at least minimum_receive or the whole route reverts (DESIGN.md C11).
use crate::engine::*;
use crate::hist::*;
use crate::sys::*;
use crate::world::*;

#[derive(Default)]
pub struct C11Oracle {
    reference: Option<Option<u128>>,
    bare_reference: Option<Option<u128>>,
    nontrivial: u64,
}

impl StepOracle for C11Oracle {
    fn pre_step(&mut self, w: &mut World, step: &Step, intent: &Intent, _gs: &GenState) {
        self.reference = None;
        self.bare_reference = None;
        if let Intent::Route { ops, delivered, extras, minimum: Some(_), receiver } = intent {
            // Coins attached besides the input that no hop offers cannot change what the route delivers (they
            // sit in the router).  D0 = what the same route delivers WITHOUT them and without a minimum, on a
            // fork: whatever happens to those coins, a success with minimum_receive above D0 is a violation.
            let offered = |a: &haloswap::asset::AssetInfo| ops.iter().any(|haloswap::router::SwapOperation::HaloSwap { offer_asset_info, .. }| offer_asset_info == a);
            if !extras.is_empty() && extras.iter().all(|(a, _)| !offered(a)) {
                let mut bare = without_minimum(step);
                bare.funds.retain(|c| !extras.iter().any(|(a, _)| matches!(a, haloswap::asset::AssetInfo::NativeToken { denom } if *denom == c.denom)));
                let mut f = w.fork();
                let rec = f.exec(bare);
                self.bare_reference = Some(if rec.outcome.is_ok() { route_net_growth(&rec, ops, delivered, &step.sender, receiver).map(|v| v.max(0) as u128) } else { None });
            }
        }
        if let Intent::Route { ops, delivered, minimum: Some(_), receiver, .. } = intent {
            // D: what the same route delivers without minimum_receive, on a fork of this very state
            let mut f = w.fork();
            let rec = f.exec(without_minimum(step));
            self.reference = Some(if rec.outcome.is_ok() { route_net_growth(&rec, ops, delivered, &step.sender, receiver).map(|v| v.max(0) as u128) } else { None });
        }
    }
    fn on_step(&mut self, cx: &mut StepCtx, classes: &mut Vec<&'static str>) -> Verdict {
        let (ops, delivered, minimum, receiver) = match cx.intent {
            Intent::Route { ops, delivered, minimum, receiver, .. } => (ops, delivered, minimum, receiver),
            _ => return Verdict::Pass,
        };
        let ok = cx.rec.outcome.is_ok();
        if !ok && !cx.rec.state_unchanged() {
            return Verdict::Fail(format!("step {}: a failed route changed chain state", cx.index));
        }
        let m = match minimum {
            Some(m) => *m,
            None => {
                classes.push("m:absent");
                return Verdict::Pass;
            }
        };
        classes.push(match ops.len() {
            0 => "hops:0",
            1 => "hops:1",
            2 => "hops:2",
            3 => "hops:3",
            _ => "hops:4+",
        });
        classes.push(if delivered.0.is_native_token() { "entry:native" } else { "entry:cw20" });
        classes.push(if *receiver == cx.rec.step.sender { "to:sender" } else { "to:other" });
        let d = self.reference.take().flatten();
        if let Some(d) = d {
            classes.push(if m < d { "m:<D" } else if m == d { "m:=D" } else { "m:>D" });
            if m == d || Some(m) == d.checked_add(1) || m.checked_add(1) == Some(d) {
                classes.push("m:within-1-of-D");
                if ops.len() >= 2 {
                    self.nontrivial += 1;
                }
            }
        } else {
            classes.push("m:route-fails-anyway");
        }
        if ok {
            classes.push("r:route-ok");
            let g = match route_net_growth(cx.rec, ops, delivered, &cx.rec.step.sender, receiver) {
                Some(g) => g,
                None => return Verdict::Fail(format!("step {}: an empty route succeeded", cx.index)),
            };
            // (compared in the unsigned domain: a bound in the upper half of the 128-bit range must not wrap)
            if g < 0 || (g as u128) < m {
                return Verdict::Fail(format!("step {}: route with minimum_receive {} succeeded but the recipient {} netted only {} of the final asset", cx.index, m, receiver, g));
            }
        } else {
            classes.push("r:route-reverted");
        }
        if let Some(Some(d0)) = self.bare_reference.take() {
            classes.push("m:extra-coins-no-hop-offers");
            if ok && d0 < m {
                return Verdict::Fail(format!(
                    "step {}: the route delivers {} when the further attached coins (which no hop offers) are left out, but with them it succeeded with minimum_receive {}: the recipient's own coins were counted as proceeds",
                    cx.index, d0, m
                ));
            }
        }
        if let Some(d) = d {
            if d < m && ok {
                return Verdict::Fail(format!("step {}: the route delivers {} without a minimum (fork) but succeeded with minimum_receive {}", cx.index, d, m));
            }
        }
        Verdict::Pass
    }
    fn nontrivial(&self) -> bool {
        self.nontrivial > 0
    }
}

fn run(t: &Tape, want_desc: bool) -> CaseResult {
    let mut o = C11Oracle::default();
    let h = run_history(t, &ROUTER, 15, &mut o, want_desc);
    hist_case(t, h)
}

pub fn suites() -> Vec<Suite> {
    vec![Suite {
        name: "minimum_receive",
        about: "routes of 1..4 hops in worlds with connected pair graphs; minimum_receive drawn around the amount D the same route delivers on a fork; success => recipient nets >= m; D < m => failure; every failed route leaves the chain byte-identical",
        head_len: HEAD_LEN,
        op_len: OP_LEN,
        max_ops: 24,
        quick_cases: 14_000,
        thorough_cases: 300_000,
        run,
        direct: Some(direct_with::<C11Oracle>),
        must_hit: &["hops:1", "hops:2", "hops:3", "hops:4+", "entry:native", "entry:cw20", "to:sender", "to:other", "m:<D", "m:=D", "m:>D", "m:within-1-of-D", "r:route-ok", "r:route-reverted"],
    }]
}

pub const RULE: &str = "case = world with 2-5 connected pairs + history (profile 'router': 14/41 of operations are routes, the rest provisions, swaps by other traders, withdrawals, donations); a route = random walk of 1..4 hops over the pair graph, native or cw20 entry, recipient unset / sender / other actor / fresh address, input a fraction of reserve or balance; minimum_receive in {0, D-1, D, D+1, 2D, random, absent} where D is what the SAME message without minimum delivers on a fork (computed again by the oracle, independently of the generator); non-trivial = a route with >= 2 hops and m within ±1 of D; distinct = hash of the tape";
pub const ASSUMPTIONS: &[&str] = &[
    "cw-multi-test chain model; fork = fresh App with identical storage",
    "the converse 'delivers >= m => succeeds' is not stated by the property and not asserted (C13 pins delivery to the quote)",
];
