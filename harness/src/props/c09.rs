//! C09 — Declared native amounts must equal the attached funds exactly (DESIGN.md C09).

use crate::engine::*;
use crate::hist::*;
use crate::sys::*;
use haloswap::asset::AssetInfo;

#[derive(Default)]
pub struct C09Oracle {
    nontrivial: u64,
}

impl StepOracle for C09Oracle {
    fn on_step(&mut self, cx: &mut StepCtx, classes: &mut Vec<&'static str>) -> Verdict {
        let w = &*cx.world;
        let (pair, named, entry): (usize, Vec<(String, u128)>, &'static str) = match cx.intent {
            Intent::Provide { pair, assets, .. } => (
                *pair,
                assets.iter().filter_map(|a| if let AssetInfo::NativeToken { denom } = &a.info { Some((denom.clone(), a.amount.u128())) } else { None }).collect(),
                "e:provide",
            ),
            Intent::Swap { pair, hook, offer, .. } => (
                *pair,
                if let AssetInfo::NativeToken { denom } = &offer.info { vec![(denom.clone(), offer.amount.u128())] } else { vec![] },
                if *hook { "e:cw20-hook" } else { "e:execute-swap" },
            ),
            _ => return Verdict::Pass,
        };
        // "The pool never credits native value that was not attached": whatever the message lists, the LP
        // minted by a successful provision into a live pool is bounded by what the ATTACHED coin of each native
        // side justifies, m <= attached_i * S / r_i (the unchanged tree mints min_i(d_i*S/r_i) with d_i attached).
        if let Intent::Provide { pair, .. } = cx.intent {
            if cx.rec.outcome.is_ok() {
                let pr = &w.pairs[*pair];
                let (r0, r1, sup) = pool_in(w, &cx.rec.before, *pair);
                let (_, _, sup_after) = pool_in(w, &cx.rec.after, *pair);
                let minted = sup_after.saturating_sub(sup);
                if sup > 0 {
                    for (i, r) in [(0usize, r0), (1usize, r1)] {
                        if let AssetInfo::NativeToken { denom } = &pr.infos[i] {
                            let att = cx.rec.step.funds.iter().filter(|c| c.denom == *denom).map(|c| c.amount.u128()).sum::<u128>();
                            if r > 0 && crate::nat::n(minted).mul(&crate::nat::n(r)) > crate::nat::n(att).mul(&crate::nat::n(sup)) {
                                return Verdict::Fail(format!(
                                    "step {}: provision minted {} LP (supply {}, reserve of {} = {}) although only {} of {} was attached: native value credited that was not attached",
                                    cx.index, minted, sup, denom, r, att, denom
                                ));
                            }
                            classes.push("p:native-credit-bounded-by-attached");
                        }
                    }
                }
            }
        }
        if named.is_empty() {
            return Verdict::Pass;
        }
        classes.push(entry);
        let pr = &w.pairs[pair];
        let n_native = pr.infos.iter().filter(|i| i.is_native_token()).count();
        classes.push(if n_native == 2 { "k:two-native" } else if n_native == 1 { "k:one-native" } else { "k:no-native" });
        let attached = |d: &str| -> Option<u128> { cx.rec.step.funds.iter().find(|c| c.denom == d).map(|c| c.amount.u128()) };
        let mut mismatch = false;
        for (d, v) in &named {
            let w_ = attached(d);
            classes.push(match (w_, *v) {
                (None, 0) => "f:zero+absent",
                (None, _) => "f:absent",
                (Some(x), v) if x == v => "f:equal",
                (Some(x), v) if x < v => "f:less",
                _ => "f:more",
            });
            if w_.unwrap_or(0) != *v {
                mismatch = true;
            }
        }
        if cx.rec.step.funds.iter().any(|c| !named.iter().any(|(d, _)| *d == c.denom)) {
            classes.push("f:extra-coin");
        }
        if !cx.rec.outcome.is_ok() {
            classes.push(if mismatch { "s:rejected-mismatch" } else { "s:rejected-other" });
            if mismatch {
                self.nontrivial += 1;
            }
            if !cx.rec.state_unchanged() {
                return Verdict::Fail(format!("step {}: rejected call changed chain state", cx.index));
            }
            return Verdict::Pass;
        }
        classes.push("s:accepted");
        for (d, v) in &named {
            let w_ = attached(d).unwrap_or(0);
            if w_ != *v {
                return Verdict::Fail(format!(
                    "step {}: {} naming {} {} succeeded although {} of that denom was attached", cx.index, entry, v, d, w_));
            }
            let info = AssetInfo::NativeToken { denom: d.clone() };
            let delta = cx.rec.delta(&info, pr.addr.as_str());
            // in a swap the named asset is the offer; nothing of it is paid out.  In a provision nothing is paid out at all.
            if delta != *v as i128 {
                return Verdict::Fail(format!(
                    "step {}: {} naming {} {} succeeded but the pair's balance of that denom changed by {}", cx.index, entry, v, d, delta));
            }
            if *v > 0 {
                self.nontrivial += 1;
            }
        }
        Verdict::Pass
    }
    fn nontrivial(&self) -> bool {
        self.nontrivial > 0
    }
}

fn run(t: &Tape, want_desc: bool) -> CaseResult {
    let mut o = C09Oracle::default();
    let h = run_history(t, &FUNDS, 14, &mut o, want_desc);
    hist_case(t, h)
}

pub fn suites() -> Vec<Suite> {
    vec![crate::props::funcs::suite_funds_check(), Suite {
        name: "funds",
        about: "provide / execute-swap / cw20-hook calls naming native assets with every declared-vs-attached relation; success => attached == declared and the pair's balance rose by exactly that; failure => whole-state equality",
        head_len: HEAD_LEN,
        op_len: OP_LEN,
        max_ops: 24,
        quick_cases: 50_000,
        thorough_cases: 600_000,
        run,
        direct: Some(direct_with::<C09Oracle>),
        must_hit: &["e:provide", "e:execute-swap", "e:cw20-hook", "k:two-native", "k:one-native", "f:zero+absent", "f:absent", "f:equal", "f:less", "f:more", "f:extra-coin",
            "s:accepted", "s:rejected-mismatch", "s:rejected-other"],
    }]
}

pub const RULE: &str = "case = world + history (profile 'funds': 11/16 of provide/swap calls have their attached funds played with: less, more, a named coin absent, an extra unrelated coin, the pair's other denom attached, random amount; coin sets have distinct denoms and positive amounts, except for one shape - on a pair with two named native coins one of them is MISSING and a repeat of the other stands in its place - whose verdict does not depend on how a repeated denom is counted); judged per call that names a native asset: success => attached == declared for every named native asset (absent counts as zero) and the pair's balance of that denom rose by exactly the declared amount; failure => chain state byte-identical; non-trivial = history with a declared != attached case or an accepted call with a positive declared amount; distinct = hash of the tape. The converse (equal funds => success) is not claimed and not asserted Every successful provision into a live pool - whatever its message lists - must in addition mint no more LP than the ATTACHED coin of each native side justifies (m*r_i <= attached_i*S): the pool never credits native value that was not attached.";
pub const ASSUMPTIONS: &[&str] = &["cw-multi-test chain model; coin sets are valid (as on a chain, which refuses a list repeating a denom) apart from the one repeated-coin shape described in the rule, in which a named denom is absent"];
