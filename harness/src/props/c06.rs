//! C06 — Swap output is the constant-product price less commission, within one unit.
use crate::engine::Suite;

pub fn suites() -> Vec<Suite> {
    vec![super::swapf::suite_c06()]
}
pub const RULE: &str = "function level: same 8 generator classes as C01 plus a second offer a+δ (δ in {1, 1..1000, log-uniform}) for the monotonicity relation; non-trivial = returned with payout >= 1 and commission rate not in {0,1}; distinct = hash of (x,y,a,C); rounding boundaries tracked in the histogram (G mod s in {0,1,s-1}; C*gross near a multiple of 10^18)";
pub const ASSUMPTIONS: &[&str] = &[
    "Nat oracle is exact; aborts are rejections (counted, not judged)",
];
