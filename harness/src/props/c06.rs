//! C06 — Swap output is the constant-product price less commission, within one unit.
use crate::engine::Suite;

pub fn suites() -> Vec<Suite> {
    let mut v = vec![];
    if cfg!(feature = "d-swap") {
        v.push(super::swapf::suite_c06());
    }
    v.extend(sys_suites());
    v
}
pub const RULE: &str = "function level: same 8 generator classes as C01 plus a second offer a+δ (δ in {1, 1..1000, log-uniform}) for the monotonicity relation; non-trivial = returned with payout >= 1 and commission rate not in {0,1}; distinct = hash of (x,y,a,C); rounding boundaries tracked in the histogram (G mod s in {0,1,s-1}; C*gross near a multiple of 10^18)";
pub const ASSUMPTIONS: &[&str] = &[
    "Nat oracle is exact; aborts are rejections (counted, not judged)",
];

// ---- system level --------------------------------------------------------------------------------
use crate::engine::*;
use crate::hist::*;
use crate::props::quotes::SimExecWithRelations;
use crate::sys::*;

fn run_sys(t: &Tape, want_desc: bool) -> CaseResult {
    let mut o = SimExecWithRelations::default();
    let h = run_history(t, &QUOTES, 15, &mut o, want_desc);
    hist_case(t, h)
}

pub fn sys_suites() -> Vec<Suite> {
    vec![Suite {
        name: "world_quotes",
        about: "in generated worlds the pair's Simulation (queried in the pre-state), the swap response attributes and the actual payout must agree, satisfy C06's four relations against the pre-swap reserves, and the ask reserve must fall by exactly the net return",
        head_len: HEAD_LEN,
        op_len: OP_LEN,
        max_ops: 24,
        quick_cases: 12_000,
        thorough_cases: 300_000,
        run: run_sys,
        direct: Some(direct_with::<SimExecWithRelations>),
        must_hit: &["q:execute", "q:hook", "q:paid", "k:native/native", "k:native/cw20", "k:cw20/cw20"],
    }]
}
