//! Function-level checks of the pair's guards: `assert_max_spread` (C10) and
//! `assert_slippage_tolerance` (C15), judged by exact rational evaluation (DESIGN.md C10, C15).

use crate::engine::*;
use crate::gen::*;
use crate::nat::{n, Nat};
use cosmwasm_std::{Decimal, Uint128};
use haloswap::asset::{Asset, AssetInfo};
use serde_json::{json, Value};

// ------------------------------------------------------------------------------------------------
// C10

#[derive(Clone, Debug)]
pub struct SpreadCase {
    pub offer: u128,
    pub ret: u128,
    pub spread: u128,
    pub belief: Option<u128>, // Decimal atomics
    pub max_spread: Option<u128>,
    pub od: u8,
    pub rd: u8,
    pub class: &'static str,
}

#[derive(Debug, Clone, PartialEq)]
pub enum GuardOutcome {
    Ok,
    GuardReject,
    OtherReject(String),
}

fn native(d: &str) -> AssetInfo {
    AssetInfo::NativeToken { denom: d.to_string() }
}

pub fn call_max_spread(k: &SpreadCase) -> GuardOutcome {
    let r = guarded(|| {
        crate::direct::max_spread(
            k.belief.map(|a| Decimal::new(Uint128::new(a))),
            k.max_spread.map(|a| Decimal::new(Uint128::new(a))),
            Asset { info: native("offer"), amount: Uint128::new(k.offer) },
            Asset { info: native("ask"), amount: Uint128::new(k.ret) },
            k.spread,
            k.od,
            k.rd,
        )
    });
    match r {
        Ok(Ok(())) => GuardOutcome::Ok,
        Ok(Err((true, _))) => GuardOutcome::GuardReject,
        Ok(Err((false, e))) => GuardOutcome::OtherReject(e),
        Err(p) => GuardOutcome::OtherReject(format!("abort: {p}")),
    }
}

/// The two implications of C10 for an observed outcome. `Err(reason)` = violated.
/// Returns Ok(near_limit) otherwise.
pub fn c10_judge(k: &SpreadCase, out: &GuardOutcome) -> Result<bool, String> {
    let e = Nat::e18();
    let up = |v: u128, k: u32| n(v).mul(&Nat::pow10(k));
    let (o, r, sp) = if k.od > k.rd {
        let d = (k.od - k.rd) as u32;
        (n(k.offer), up(k.ret, d), up(k.spread, d))
    } else {
        let d = (k.rd - k.od) as u32;
        (up(k.offer, d), n(k.ret), n(k.spread))
    };
    let mut near = false;
    let close = |a: &Nat, b: &Nat| -> bool {
        // |a-b| * 10^12 <= max(a,b)
        let (hi, lo) = if a >= b { (a, b) } else { (b, a) };
        hi.sub(lo).mul(&Nat::pow10(12)) <= *hi
    };
    match (k.belief, k.max_spread) {
        (Some(p), Some(sa)) => {
            let p = n(p);
            let lhs = r.mul(&p).mul(&e); // R*P*E18
            let oe = o.mul(&e);
            if sa < E18 {
                let full = oe.mul(&e.sub(&n(sa))); // O*E18*(E18-Sa)
                near = close(&lhs, &full);
            }
            match out {
                GuardOutcome::Ok => {
                    if oe > p && sa < E18 {
                        // must have R > (O/p - 1)*(1 - s - 1e-18)
                        let rhs = oe.sub(&p).mul(&e.sub(&n(sa)).sub(&Nat::one()));
                        if !(lhs > rhs) {
                            return Err(format!(
                                "accepted although normalised return {} <= (offer/p - 1)*(1 - s - 1e-18) [offer' {} p {}e-18 s {}e-18]", r, o, p, sa));
                        }
                    }
                }
                GuardOutcome::GuardReject => {
                    // allowed only if R < (O/p)*(1-s)
                    if sa >= E18 {
                        return Err(format!("rejected by the spread guard although max_spread {}e-18 >= 1 (return >= (offer/p)*(1-s) trivially)", sa));
                    }
                    let full = oe.mul(&e.sub(&n(sa)));
                    if !(lhs < full) {
                        return Err(format!(
                            "rejected by the spread guard although normalised return {} >= (offer/p)*(1-s) [offer' {} p {}e-18 s {}e-18]", r, o, p, sa));
                    }
                }
                GuardOutcome::OtherReject(_) => {}
            }
        }
        (None, Some(sa)) => {
            let tot = r.add(&sp);
            if tot.is_zero() {
                return Ok(false); // ratio undefined (F10): counted by the caller, not judged
            }
            let l = sp.mul(&e);
            near = close(&l, &n(sa).mul(&tot));
            match out {
                GuardOutcome::Ok => {
                    if !(l < n(sa).add(&Nat::one()).mul(&tot)) {
                        return Err(format!("accepted although spread/(return+spread) = {}/{} >= s + 1e-18 (s = {}e-18)", sp, tot, sa));
                    }
                }
                GuardOutcome::GuardReject => {
                    if !(l > n(sa).mul(&tot)) {
                        return Err(format!("rejected by the spread guard although spread/(return+spread) = {}/{} <= s (s = {}e-18)", sp, tot, sa));
                    }
                }
                GuardOutcome::OtherReject(_) => {}
            }
        }
        _ => {
            // no max_spread: the property constrains nothing; the guard must not invent a rejection
            if *out == GuardOutcome::GuardReject {
                return Err("rejected by the spread guard although no max_spread was given".into());
            }
        }
    }
    Ok(near)
}

/// a 128-bit decimal whose whole part is a multiple of 2^64 plus a small rest: a value a conversion through
/// a 64-bit whole part would wrap to that small rest
fn wrap64(s: &mut Src, rest_atomics: u128) -> u128 {
    let k = 1 + s.below(17) as u128;
    (k << 64).saturating_mul(E18).saturating_add(rest_atomics % (E18 << 3))
}

fn gen_price(s: &mut Src) -> u128 {
    match s.weighted(&[3, 1, 1, 3, 3, 2, 1, 1]) {
        0 => E18,
        1 => 0,
        7 => {
            let r = s.upto_u128(E18 * 4);
            wrap64(s, r)
        }
        // the whole width of the 128-bit Decimal the message carries (whole part beyond 2^64)
        6 => s.bits_u128(128).max(1),
        2 => 1 + s.below(1000) as u128,
        3 => s.bits_u128(100),
        4 => {
            // few digits around 1
            let k = s.below(19) as u32;
            (1 + s.below(99_999) as u128) * 10u128.pow(k) / 1000
        }
        _ => s.upto_u128(E18 * 1000),
    }
}

fn gen_spread_limit(s: &mut Src) -> u128 {
    if s.chance(1, 8) {
        match s.below(3) {
            0 => E18 + s.bits_u128(70), // above 100 %
            1 => E18 + s.bits_u128(127), // ... up to the width of the 128-bit Decimal
            _ => {
                let r = gen_rate_atomics(s);
                wrap64(s, r)
            }
        }
    } else {
        gen_rate_atomics(s)
    }
}

pub fn gen_spread_case(s: &mut Src) -> SpreadCase {
    let od = s.below(19) as u8;
    let rd = match s.weighted(&[2, 3]) {
        0 => od,
        _ => s.below(19) as u8,
    };
    let mode = s.weighted(&[5, 4, 1, 1]);
    let (belief, max_spread) = match mode {
        0 => (Some(gen_price(s)), Some(gen_spread_limit(s))),
        1 => (None, Some(gen_spread_limit(s))),
        2 => (Some(gen_price(s)), None),
        _ => (None, None),
    };
    let cls = s.weighted(&[4, 5]);
    let up = |k: u8| 10u128.pow(k as u32);
    if cls == 0 {
        return SpreadCase { offer: gen128(s), ret: gen128(s), spread: gen128(s), belief, max_spread, od, rd, class: "g:independent" };
    }
    // near-limit constructions; keep magnitudes so that the checked scaling does not overflow
    let offer = s.bits_u128(64).max(1);
    match (belief, max_spread) {
        (Some(p), Some(sa)) if p > 0 => {
            let o = n(offer).mul(&Nat::pow10(rd.saturating_sub(od) as u32));
            let exp = o.mul(&Nat::e18()).div(&n(p));
            let lim = if sa <= E18 { exp.mul(&n(E18 - sa)).div(&Nat::e18()) } else { Nat::zero() };
            let kdiv = up(od.saturating_sub(rd));
            let base = lim.div(&n(kdiv)).to_u128().unwrap_or(u128::MAX / 4);
            let ret = (base.saturating_add(2)).saturating_sub(s.below(5) as u128);
            SpreadCase { offer, ret, spread: gen128(s) >> 64, belief, max_spread, od, rd, class: "g:near-limit-belief" }
        }
        (None, Some(sa)) => {
            let tot = s.bits_u128(90).max(1);
            let spn = n(tot).mul(&n(sa.min(E18))).div(&Nat::e18()).to_u128().unwrap_or(0);
            let sp = spn.saturating_add(2).saturating_sub(s.below(5) as u128).min(tot);
            SpreadCase { offer, ret: tot - sp, spread: sp, belief, max_spread, od, rd, class: "g:near-limit-ratio" }
        }
        _ => SpreadCase { offer, ret: gen128(s), spread: gen128(s) >> 32, belief, max_spread, od, rd, class: "g:independent" },
    }
}

fn label3(a: &'static str, b: &'static str, c: &'static str) -> &'static str {
    use std::collections::HashMap;
    use std::sync::{Mutex, OnceLock};
    static T: OnceLock<Mutex<HashMap<(&'static str, &'static str, &'static str), &'static str>>> = OnceLock::new();
    let mut m = T.get_or_init(|| Mutex::new(HashMap::new())).lock().unwrap();
    m.entry((a, b, c)).or_insert_with(|| Box::leak(format!("{} {} {}", a, b, c).into_boxed_str()))
}

pub fn judge_c10(k: &SpreadCase, want_desc: bool) -> CaseResult {
    let out = call_max_spread(k);
    let ord = if k.od > k.rd { "dec:offer>ask" } else if k.od < k.rd { "dec:offer<ask" } else { "dec:equal" };
    let mode = match (k.belief, k.max_spread) {
        (Some(_), Some(_)) => "mode:belief+spread",
        (None, Some(_)) => "mode:spread-only",
        (Some(_), None) => "mode:belief-only",
        _ => "mode:none",
    };
    let oc = match &out {
        GuardOutcome::Ok => "v:accepted",
        GuardOutcome::GuardReject => "v:guard-rejected",
        GuardOutcome::OtherReject(_) => "v:other-rejection",
    };
    let mut classes = vec![k.class, label3(ord, mode, oc), oc];
    let (verdict, near) = match c10_judge(k, &out) {
        Ok(near) => (Verdict::Pass, near),
        Err(m) => (Verdict::Fail(format!("assert_max_spread(offer {}, return {}, spread {}, belief {:?}, max_spread {:?}, decimals {}/{}) -> {:?}: {}",
            k.offer, k.ret, k.spread, k.belief, k.max_spread, k.od, k.rd, out, m)), false),
    };
    if k.belief.is_none() && k.max_spread.is_some() && k.ret == 0 && k.spread == 0 {
        classes.push("x:undefined-ratio-skipped");
    }
    if near {
        classes.push("n:near-limit");
    }
    let judged = !matches!(out, GuardOutcome::OtherReject(_)) && k.max_spread.is_some();
    let nontrivial = judged && (near || k.od != k.rd);
    let key = hash_words(&[k.offer, k.ret, k.spread, k.belief.unwrap_or(u128::MAX), k.max_spread.unwrap_or(u128::MAX), (k.od as u128) << 8 | k.rd as u128]);
    let desc = if want_desc || !matches!(verdict, Verdict::Pass) {
        Some(json!({"offer": k.offer.to_string(), "return": k.ret.to_string(), "spread": k.spread.to_string(),
            "belief_price_atomics": k.belief.map(|v| v.to_string()), "max_spread_atomics": k.max_spread.map(|v| v.to_string()),
            "offer_decimals": k.od, "ask_decimals": k.rd, "class": k.class, "outcome": format!("{:?}", out)}))
    } else {
        None
    };
    CaseResult { verdict, nontrivial, key, classes, desc }
}

fn run_c10(t: &Tape, want_desc: bool) -> CaseResult {
    let mut s = Src::new(&t.head);
    let k = gen_spread_case(&mut s);
    judge_c10(&k, want_desc)
}

fn opt_u128(v: &Value, k: &str) -> Result<Option<u128>, String> {
    match v.get(k) {
        None | Some(Value::Null) => Ok(None),
        Some(x) => x.as_str().ok_or_else(|| format!("{k}: not a string"))?.parse::<u128>().map(Some).map_err(|e| format!("{k}: {e}")),
    }
}
fn req_u128(v: &Value, k: &str) -> Result<u128, String> {
    opt_u128(v, k)?.ok_or_else(|| format!("missing {k}"))
}

fn direct_c10(v: &Value) -> Result<CaseResult, String> {
    let k = SpreadCase {
        offer: req_u128(v, "offer")?,
        ret: req_u128(v, "return")?,
        spread: req_u128(v, "spread")?,
        belief: opt_u128(v, "belief_price_atomics")?,
        max_spread: opt_u128(v, "max_spread_atomics")?,
        od: v.get("offer_decimals").and_then(|x| x.as_u64()).unwrap_or(6) as u8,
        rd: v.get("ask_decimals").and_then(|x| x.as_u64()).unwrap_or(6) as u8,
        class: "g:direct",
    };
    Ok(judge_c10(&k, true))
}

pub fn suite_c10() -> Suite {
    Suite {
        name: "max_spread_guard",
        about: "assert_max_spread on generated amounts, prices, limits and decimals; both implications decided exactly",
        head_len: 40,
        op_len: 0,
        max_ops: 0,
        quick_cases: 8_000_000,
        thorough_cases: 100_000_000,
        run: run_c10,
        direct: Some(direct_c10),
        must_hit: &["g:independent", "g:near-limit-belief", "g:near-limit-ratio", "v:accepted", "v:guard-rejected", "v:other-rejection", "n:near-limit",
            "dec:offer>ask mode:belief+spread v:accepted", "dec:offer>ask mode:belief+spread v:guard-rejected",
            "dec:offer<ask mode:belief+spread v:accepted", "dec:offer<ask mode:belief+spread v:guard-rejected",
            "dec:equal mode:belief+spread v:accepted", "dec:equal mode:belief+spread v:guard-rejected",
            "dec:offer>ask mode:spread-only v:accepted", "dec:offer>ask mode:spread-only v:guard-rejected",
            "dec:offer<ask mode:spread-only v:accepted", "dec:offer<ask mode:spread-only v:guard-rejected",
            "dec:equal mode:spread-only v:accepted", "dec:equal mode:spread-only v:guard-rejected"],
    }
}

// ------------------------------------------------------------------------------------------------
// C15

#[derive(Clone, Debug)]
pub struct SlipCase {
    pub d: [u128; 2],
    pub r: [u128; 2],
    pub tol: Option<u128>,
    pub class: &'static str,
}

pub fn call_slippage(k: &SlipCase) -> GuardOutcome {
    let r = guarded(|| {
        crate::direct::slippage(
            &k.tol.map(|a| Decimal::new(Uint128::new(a))),
            &k.d,
            &[Asset { info: native("a"), amount: Uint128::new(k.r[0]) }, Asset { info: native("b"), amount: Uint128::new(k.r[1]) }],
        )
    });
    match r {
        Ok(Ok(())) => GuardOutcome::Ok,
        Ok(Err((true, _))) => GuardOutcome::GuardReject,
        Ok(Err((false, e))) => GuardOutcome::OtherReject(e),
        Err(p) => GuardOutcome::OtherReject(format!("abort: {p}")),
    }
}

/// C15 implications. Ok(near_limit) or Err(reason)
pub fn c15_judge(k: &SlipCase, out: &GuardOutcome) -> Result<bool, String> {
    let t = match k.tol {
        None => {
            if *out == GuardOutcome::GuardReject {
                return Err("rejected by the slippage guard although no tolerance was given".into());
            }
            return Ok(false);
        }
        Some(t) => t,
    };
    if t > E18 {
        return if *out == GuardOutcome::Ok { Err(format!("tolerance {}e-18 > 1 accepted", t)) } else { Ok(false) };
    }
    let e = Nat::e18();
    let tt = n(E18 - t);
    let (d0, d1, r0, r1) = (n(k.d[0]), n(k.d[1]), n(k.r[0]), n(k.r[1]));
    // side i: (d_i/d_j)(1-t) vs r_i/r_j
    let lhs0 = d0.mul(&tt).mul(&r1); // d0*T*r1
    let lhs1 = d1.mul(&tt).mul(&r0);
    let close = |a: &Nat, b: &Nat| -> bool {
        let (hi, lo) = if a >= b { (a, b) } else { (b, a) };
        hi.sub(lo).mul(&Nat::pow10(12)) <= *hi
    };
    let mid0 = r0.mul(&e).mul(&d1);
    let mid1 = r1.mul(&e).mul(&d0);
    let near = (!lhs0.is_zero() && close(&lhs0, &mid0)) || (!lhs1.is_zero() && close(&lhs1, &mid1));
    match out {
        GuardOutcome::Ok => {
            let up0 = r0.mul(&e).add(&r1.mul(&n(2))).mul(&d1);
            let up1 = r1.mul(&e).add(&r0.mul(&n(2))).mul(&d0);
            if !(lhs0 < up0) {
                return Err(format!("accepted although (d0/d1)(1-t) >= r0/r1 + 2e-18 [d {:?} r {:?} t {}e-18]", k.d, k.r, t));
            }
            if !(lhs1 < up1) {
                return Err(format!("accepted although (d1/d0)(1-t) >= r1/r0 + 2e-18 [d {:?} r {:?} t {}e-18]", k.d, k.r, t));
            }
        }
        GuardOutcome::GuardReject => {
            let c0 = match r0.mul(&e).checked_sub(&r1) {
                Some(v) => lhs0 <= v.mul(&d1),
                None => false,
            };
            let c1 = match r1.mul(&e).checked_sub(&r0) {
                Some(v) => lhs1 <= v.mul(&d0),
                None => false,
            };
            if c0 && c1 {
                return Err(format!("rejected by the slippage guard although both ratios are within the reserve ratio - 1e-18 [d {:?} r {:?} t {}e-18]", k.d, k.r, t));
            }
        }
        GuardOutcome::OtherReject(_) => {}
    }
    Ok(near)
}

pub fn gen_slip_case(s: &mut Src) -> SlipCase {
    let tol = match s.weighted(&[1, 8, 1]) {
        0 => None,
        1 => Some(gen_rate_atomics(s)),
        _ => Some(match s.below(3) {
            0 => E18 + 1 + s.bits_u128(64),
            1 => E18 + 1 + s.bits_u128(127),
            _ => {
                let r = gen_rate_atomics(s);
                wrap64(s, r)
            }
        }),
    };
    let nz = |s: &mut Src| -> u128 {
        if s.chance(1, 40) { 0 } else { gen128(s).max(1) }
    };
    let cls = s.weighted(&[3, 5, 2]);
    match cls {
        0 => SlipCase { d: [nz(s), nz(s)], r: [nz(s), nz(s)], tol, class: "g:independent" },
        1 => {
            // d0 = floor(r0*d1*E18/(r1*T)) + {-2..2}   (or the mirrored construction)
            let r = [s.bits_u128(100).max(1), s.bits_u128(100).max(1)];
            let dj = s.bits_u128(90).max(1);
            let t = tol.unwrap_or(0).min(E18);
            let tt = E18 - t;
            let mirror = s.bool();
            let (ri, rj) = if mirror { (r[1], r[0]) } else { (r[0], r[1]) };
            let di = if tt == 0 {
                gen128(s).max(1)
            } else {
                let v = n(ri).mul(&n(dj)).mul(&Nat::e18()).div(&n(rj).mul(&n(tt)));
                v.to_u128().unwrap_or(u128::MAX - 8).saturating_add(2).saturating_sub(s.below(5) as u128).max(1)
            };
            let d = if mirror { [dj, di] } else { [di, dj] };
            SlipCase { d, r, tol, class: "g:near-limit" }
        }
        _ => {
            // balanced deposit (d proportional to r) with a small perturbation
            let r = [s.bits_u128(100).max(1), s.bits_u128(100).max(1)];
            let f = s.bits_u128(20).max(1);
            let d0 = n(r[0]).mul(&n(f)).div(&n(1 << 10)).to_u128().unwrap_or(u128::MAX).max(1);
            let d1 = n(r[1]).mul(&n(f)).div(&n(1 << 10)).to_u128().unwrap_or(u128::MAX).max(1);
            SlipCase { d: [d0.saturating_add(s.below(3) as u128), d1.saturating_add(s.below(3) as u128)], r, tol, class: "g:balanced" }
        }
    }
}

pub fn judge_c15(k: &SlipCase, want_desc: bool) -> CaseResult {
    let out = call_slippage(k);
    let oc = match &out {
        GuardOutcome::Ok => "v:accepted",
        GuardOutcome::GuardReject => "v:guard-rejected",
        GuardOutcome::OtherReject(_) => "v:other-rejection",
    };
    let tc = match k.tol {
        None => "t:absent",
        Some(t) if t > E18 => "t:>1",
        Some(0) => "t:0",
        Some(t) if t == E18 => "t:1",
        _ => "t:(0,1)",
    };
    let mut classes = vec![k.class, oc, tc, label3(k.class, tc, oc)];
    let (verdict, near) = match c15_judge(k, &out) {
        Ok(near) => (Verdict::Pass, near),
        Err(m) => (Verdict::Fail(format!("assert_slippage_tolerance(t {:?}, deposits {:?}, reserves {:?}) -> {:?}: {}", k.tol, k.d, k.r, out, m)), false),
    };
    if near {
        classes.push("n:near-limit");
    }
    let unbalanced = n(k.d[0]).mul(&n(k.r[1])) != n(k.d[1]).mul(&n(k.r[0]));
    let judged = k.tol.is_some() && !matches!(out, GuardOutcome::OtherReject(_));
    let nontrivial = judged && (near || unbalanced);
    let key = hash_words(&[k.d[0], k.d[1], k.r[0], k.r[1], k.tol.unwrap_or(u128::MAX)]);
    let desc = if want_desc || !matches!(verdict, Verdict::Pass) {
        Some(json!({"deposits": [k.d[0].to_string(), k.d[1].to_string()], "reserves": [k.r[0].to_string(), k.r[1].to_string()],
            "tolerance_atomics": k.tol.map(|t| t.to_string()), "class": k.class, "outcome": format!("{:?}", out)}))
    } else {
        None
    };
    CaseResult { verdict, nontrivial, key, classes, desc }
}

fn run_c15(t: &Tape, want_desc: bool) -> CaseResult {
    let mut s = Src::new(&t.head);
    let k = gen_slip_case(&mut s);
    judge_c15(&k, want_desc)
}

fn direct_c15(v: &Value) -> Result<CaseResult, String> {
    let arr = |k: &str| -> Result<[u128; 2], String> {
        let a = v.get(k).and_then(|x| x.as_array()).ok_or_else(|| format!("missing {k}"))?;
        let p = |i: usize| a.get(i).and_then(|x| x.as_str()).ok_or("bad array")?.parse::<u128>().map_err(|e| e.to_string());
        Ok([p(0)?, p(1)?])
    };
    let k = SlipCase { d: arr("deposits")?, r: arr("reserves")?, tol: opt_u128(v, "tolerance_atomics")?, class: "g:direct" };
    Ok(judge_c15(&k, true))
}

pub fn suite_c15() -> Suite {
    Suite {
        name: "slippage_guard",
        about: "assert_slippage_tolerance on generated deposits, reserves and tolerances; both implications and t>1 decided exactly",
        head_len: 40,
        op_len: 0,
        max_ops: 0,
        quick_cases: 8_000_000,
        thorough_cases: 100_000_000,
        run: run_c15,
        direct: Some(direct_c15),
        must_hit: &["g:independent", "g:near-limit", "g:balanced", "v:accepted", "v:guard-rejected", "v:other-rejection", "t:>1", "t:0", "t:1", "t:(0,1)", "t:absent", "n:near-limit",
            "g:near-limit t:(0,1) v:accepted", "g:near-limit t:(0,1) v:guard-rejected"],
    }
}
