//! C19 — Pair listing pagination is complete and duplicate-free (DESIGN.md C19).
use crate::engine::*;
use crate::props::registry::*;
use crate::world::*;
use cosmwasm_std::Uint128;
use haloswap::asset::{AssetInfo, CreatePairRequirements, LPTokenInfo};
use serde_json::{json, Value};
use std::collections::BTreeSet;

fn walk(fw: &FactoryWorld, limit: Option<u32>, expect_total: usize) -> Result<Vec<(String, [AssetInfo; 2])>, String> {
    let eff = limit.unwrap_or(10).min(30) as usize;
    let mut out: Vec<(String, [AssetInfo; 2])> = vec![];
    let mut cursor: Option<[AssetInfo; 2]> = None;
    for _ in 0..(expect_total + 3) {
        let page = fw.pairs_page(cursor.clone(), limit).map_err(|e| format!("Pairs query failed: {e}"))?;
        let remaining = expect_total.saturating_sub(out.len());
        let want = eff.min(remaining);
        if page.len() != want {
            return Err(format!("page after {} entries with limit {:?} has {} entries, expected min(limit or 10, 30, remaining) = {}", out.len(), limit, page.len(), want));
        }
        if page.is_empty() {
            return Ok(out);
        }
        for p in &page {
            out.push((p.contract_addr.clone(), p.asset_infos.clone()));
        }
        cursor = Some(page.last().unwrap().asset_infos.clone());
        if page.len() < eff {
            // a short page ends the walk; one more query must come back empty
            let next = fw.pairs_page(cursor.clone(), limit).map_err(|e| format!("Pairs query failed: {e}"))?;
            if !next.is_empty() {
                return Err(format!("walk with limit {:?}: a short page was followed by a non-empty page", limit));
            }
            return Ok(out);
        }
    }
    Err(format!("walk with limit {:?} did not terminate after {} pages", limit, expect_total + 3))
}

fn play(cfg: &WorldCfg, sets: &[[AssetInfo; 2]], want_desc: bool, key: u64) -> CaseResult {
    let mut fw = FactoryWorld::build(cfg);
    let owner = fw.w.owner.to_string();
    let req = CreatePairRequirements { whitelist: vec![], first_asset_minimum: Uint128::zero(), second_asset_minimum: Uint128::zero() };
    let lp = LPTokenInfo { lp_token_name: "halo-lp".into(), lp_token_symbol: "HLP".into(), lp_token_decimals: None };
    let mut classes: Vec<&'static str> = vec![];
    let mut refused = 0;
    for (i, s) in sets.iter().enumerate() {
        let (da, db) = (fw.true_decimals(&s[0]), fw.true_decimals(&s[1]));
        // creation parameters vary from pair to pair (derived from the position): a listing must not
        // depend on requirements, commission or LP decimals
        let req_i = CreatePairRequirements {
            // (every 13th pair, from the 3rd on, has a LONG whitelist of 129..168 addresses: whatever a pair's
            // record holds, it is one entry of the listing)
            whitelist: if i % 13 == 2 {
                (0..129 + (i % 40)).map(|k| cosmwasm_std::Addr::unchecked(format!("listed{}", k))).collect()
            } else {
                match i % 4 { 0 => vec![], 1 => vec![fw.w.actors[0].clone()], 2 => fw.w.actors.clone(), _ => vec![fw.w.actors[1].clone(), fw.w.actors[1].clone()] }
            },
            first_asset_minimum: Uint128::new((i as u128 % 3) * 1000),
            second_asset_minimum: Uint128::new((i as u128 % 5) * 7),
        };
        let commission_i = [None, Some(0u128), Some(1), Some(3_000_000_000_000_000), Some(500_000_000_000_000_000), Some(999_999_999_999_999_999), Some(1_000_000_000_000_000_000)][i % 7];
        let lp_i = LPTokenInfo { lp_token_name: "halo-lp".into(), lp_token_symbol: "HLP".into(), lp_token_decimals: [None, Some(0u8), Some(6), Some(18)][i % 4] };
        let _ = (&req, &lp);
        let rec = fw.create_pair(&owner, s.clone(), req_i, commission_i, lp_i);
        if rec.outcome.is_ok() {
            let addr = match &rec.outcome {
                Outcome::Ok { attrs } => attrs.iter().flat_map(|(_, a)| a.iter()).find(|(k, _)| k == "pair_contract_addr").map(|(_, v)| v.clone()).unwrap_or_default(),
                _ => String::new(),
            };
            fw.model.pairs.insert(set_key(&s[0], &s[1]), ModelPair { addr, infos: s.clone(), decimals: [da.unwrap_or(0), db.unwrap_or(0)], requirements: req.clone(), commission: 3_000_000_000_000_000 });
        } else {
            refused += 1;
        }
    }
    if refused > 0 {
        classes.push("x:some-creations-refused");
    }
    // Administration between creation and listing (derived from the registry, in every second case): the
    // owner migrates every fourth registered pair to the current pair code and re-registers one denom with
    // other decimals. Neither may add, drop, duplicate or reorder a registry entry.
    if fw.model.pairs.len() % 2 == 1 {
        let addrs: Vec<String> = fw.model.pairs.values().map(|m| m.addr.clone()).collect();
        let code = fw.w.codes.pair;
        for (i, a) in addrs.iter().enumerate() {
            if i % 4 == 1 {
                let rec = fw.w.exec(Step {
                    sender: owner.clone(),
                    call: Call::Factory { msg: haloswap::factory::ExecuteMsg::MigratePair { contract: a.clone(), code_id: match i % 12 { 1 => Some(code), 5 => Some(fw.w.codes.pair_alt), _ => None } } },
                    funds: vec![],
                });
                if rec.outcome.is_ok() {
                    classes.push("adm:pair-migrated");
                }
            }
        }
        // the factory itself is migrated (to its own code) by its chain-level admin
        if fw.model.pairs.len() % 4 == 1 {
            let (f, c) = (fw.w.factory.to_string(), fw.w.codes.factory);
            let rec = fw.w.exec(Step { sender: owner.clone(), call: Call::Migrate { contract: f, code_id: c }, funds: vec![] });
            if rec.outcome.is_ok() {
                classes.push("adm:factory-migrated");
            }
        }
        if let Some((d, dec)) = fw.model.denoms.iter().next().map(|(d, v)| (d.clone(), *v)) {
            let rec = fw.w.exec(Step {
                sender: owner.clone(),
                call: Call::Factory { msg: haloswap::factory::ExecuteMsg::AddNativeTokenDecimals { denom: d.clone(), decimals: ((dec as u16 + 1) % 19) as u8 } },
                funds: vec![],
            });
            if rec.outcome.is_ok() {
                fw.model.denoms.insert(d, ((dec as u16 + 1) % 19) as u8);
                classes.push("adm:denom-re-registered");
            }
        }
    }
    let n = fw.model.pairs.len();
    classes.push(match n {
        0 => "size:0",
        1..=9 => "size:1-9",
        10 => "size:10",
        11..=29 => "size:11-29",
        30 => "size:30",
        _ => "size:31-40",
    });
    let model_addrs: BTreeSet<String> = fw.model.pairs.values().map(|m| m.addr.clone()).collect();
    let mut verdict = Verdict::Pass;
    let mut reference: Option<Vec<(String, [AssetInfo; 2])>> = None;
    // page size 1 first: its walk defines the listing order unambiguously (one entry per page)
    let mut limits: Vec<Option<u32>> = vec![Some(1), None];
    limits.extend((2..=40).map(Some));
    'l: for limit in limits {
        match walk(&fw, limit, n) {
            Err(m) => {
                verdict = Verdict::Fail(format!("registry of {} pairs: {}", n, m));
                break 'l;
            }
            Ok(seq) => {
                let addrs: Vec<&String> = seq.iter().map(|(a, _)| a).collect();
                let set: BTreeSet<String> = addrs.iter().map(|a| (*a).clone()).collect();
                if set.len() != seq.len() {
                    verdict = Verdict::Fail(format!("registry of {} pairs: walk with limit {:?} visits a pair twice: {:?}", n, limit, addrs));
                    break 'l;
                }
                if set != model_addrs {
                    let missing: Vec<&String> = model_addrs.difference(&set).collect();
                    let extra: Vec<&String> = set.difference(&model_addrs).collect();
                    verdict = Verdict::Fail(format!("registry of {} pairs: walk with limit {:?} misses {:?} and invents {:?}", n, limit, missing, extra));
                    break 'l;
                }
                match &reference {
                    None => reference = Some(seq),
                    Some(r) => {
                        if r.iter().map(|(a, _)| a).collect::<Vec<_>>() != addrs {
                            // not demanded by the statement (each walk is complete on its own): observed only
                            classes.push("c:walks-disagree-on-order");
                        }
                    }
                }
            }
        }
    }
    // every registered pair as a continuation cursor, as the list returned it: the page must hold
    // exactly the next entries of the listing (compared as a set), never the cursor itself or anything
    // before it.  The cursor with its two assets reversed is probed too but only observed: the statement
    // speaks of continuing after the pair *as returned*.
    if matches!(verdict, Verdict::Pass) {
        if let Some(r) = &reference {
            'c: for (i, (_, infos)) in r.iter().enumerate() {
                for flip in [false, true] {
                    let cur = if flip { [infos[1].clone(), infos[0].clone()] } else { infos.clone() };
                    for limit in [None, Some(30u32), Some(1), Some(7)] {
                        let eff = limit.unwrap_or(10).min(30) as usize;
                        match fw.pairs_page(Some(cur.clone()), limit) {
                            Err(e) => {
                                if !flip {
                                    verdict = Verdict::Fail(format!("Pairs query continuing after a returned pair {:?} failed: {}", cur, e));
                                    break 'c;
                                }
                                classes.push("c:reversed-cursor-differs");
                            }
                            Ok(page) => {
                                let want: BTreeSet<&String> = r[i + 1..].iter().take(eff).map(|(a, _)| a).collect();
                                let got: BTreeSet<&String> = page.iter().map(|p| &p.contract_addr).collect();
                                if want != got || page.len() != got.len() {
                                    if flip {
                                        classes.push("c:reversed-cursor-differs");
                                    } else {
                                        verdict = Verdict::Fail(format!(
                                            "registry of {} pairs: continuing after entry {} ({} / {}) with limit {:?} returns {:?}, but the entries that follow it are {:?}", n, i, cur[0], cur[1], limit, got, want));
                                        break 'c;
                                    }
                                }
                            }
                        }
                    }
                }
            }
            classes.push("c:every-cursor-tried");
        }
    }
    let nontrivial = n >= 11;
    let desc = if want_desc || matches!(verdict, Verdict::Fail(_)) {
        Some(json!({"registry_size": n, "denoms": fw.w.natives, "tokens": fw.w.tokens.len(),
            "listing_order": reference.as_ref().map(|r| r.iter().map(|(a, i)| format!("{}:{}/{}", a, i[0], i[1])).collect::<Vec<_>>()),
            "concrete": {"cfg": cfg, "sets": sets}}))
    } else {
        None
    };
    CaseResult { verdict, nontrivial, key, classes, desc }
}

fn run(t: &Tape, want_desc: bool) -> CaseResult {
    let mut s = Src::new(&t.head);
    let cfg = gen_factory_cfg(&mut s, 4, 9, false);
    // the asset universe is determined by the configuration (contract addresses are sequential)
    let nt = cfg.token_decimals.len();
    let mut uni: Vec<AssetInfo> = cfg.denoms.iter().map(|d| AssetInfo::NativeToken { denom: d.clone() }).collect();
    uni.extend((0..nt).map(|i| AssetInfo::Token { contract_addr: format!("contract{}", 3 + i) }));
    let mut all: Vec<[AssetInfo; 2]> = vec![];
    for i in 0..uni.len() {
        for j in (i + 1)..uni.len() {
            all.push([uni[i].clone(), uni[j].clone()]);
        }
    }
    let target = match s.weighted(&[1, 3, 1, 4, 1, 3]) {
        0 => 0,
        1 => s.range(1, 9),
        2 => 10,
        3 => s.range(11, 29),
        4 => 30,
        _ => s.range(31, 40),
    } as usize;
    let mut sets = vec![];
    while sets.len() < target && !all.is_empty() {
        let mut x = all.remove(s.idx(all.len()));
        if s.bool() {
            x.swap(0, 1);
        }
        sets.push(x);
    }
    play(&cfg, &sets, want_desc, fnv64(&t.to_bytes()))
}

fn direct(v: &Value) -> Result<CaseResult, String> {
    let cfg: WorldCfg = serde_json::from_value(v.get("cfg").cloned().ok_or("missing cfg")?).map_err(|e| format!("cfg: {e}"))?;
    let sets: Vec<[AssetInfo; 2]> = serde_json::from_value(v.get("sets").cloned().ok_or("missing sets")?).map_err(|e| format!("sets: {e}"))?;
    Ok(play(&cfg, &sets, true, fnv64(v.to_string().as_bytes())))
}

pub fn suites() -> Vec<Suite> {
    vec![Suite {
        name: "pagination",
        about: "registries of 0..40 pairs over prefix-sharing denoms and cw20 tokens; walked with every page size (absent, 1..40); every registered pair tried as a cursor in both asset orders",
        head_len: 140,
        op_len: 0,
        max_ops: 0,
        quick_cases: 6_000,
        thorough_cases: 80_000,
        run,
        direct: Some(direct),
        must_hit: &["size:0", "size:1-9", "size:10", "size:11-29", "size:30", "size:31-40", "c:every-cursor-tried"],
    }]
}

pub const RULE: &str = "case = factory world (4-9 prefix-sharing native denoms incl. the concatenation-collision quadruple, 0-3 cw20 tokens) + a registry of 0 / 1-9 / 10 / 11-29 / 30 / 31-40 pairs created in generated order and asset order; for EVERY page size in {absent, 1..40} the list is walked continuing after the last pair returned: each page has exactly min(limit or 10, 30, remaining) entries, the walk ends and visits every registered pair exactly once; EVERY registered pair is then used as a continuation cursor as the list returned it (limits absent / 30 / 1 / 7): the page must hold exactly the entries that follow it in the listing order (the order of the page-size-1 walk), compared as a set; cursors with the two assets reversed and the agreement of different walks on the order are probed but only observed; non-trivial = registry of >= 11 pairs (page sizes that do not divide the size are always among the 41 tried); distinct = hash of the tape; the page-size and cursor dimensions are enumerated exhaustively per registry";
pub const ASSUMPTIONS: &[&str] = &[
    "cw-multi-test chain model; token contract addresses are assigned sequentially (contract3..)",
    "'walking with page size L' is read as the usual paging contract: a page holds exactly min(L or 10, 30, remaining) entries, so that a short page means the end of the list; a page shorter than that while entries remain is reported",
];
