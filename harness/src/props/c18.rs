//! C18 — Decimal and integer text, JSON and width conversions are lossless (DESIGN.md C18).

use crate::engine::*;
use crate::gen::*;
use crate::nat::Nat;
use bignumber::{Decimal256, Uint256};
use cosmwasm_std::{Decimal, Uint128};
use serde_json::{json, Value};
use std::convert::TryFrom;
use std::str::FromStr;

/// canonical decimal numeral of atomics/10^18
fn canon_decimal(atomics: &Nat) -> String {
    let (w, f) = atomics.divrem(&Nat::e18()).unwrap();
    if f.is_zero() {
        w.to_dec_string()
    } else {
        let fs = format!("{:0>18}", f.to_dec_string());
        format!("{}.{}", w.to_dec_string(), fs.trim_end_matches('0'))
    }
}

fn fail(msg: String) -> Verdict {
    Verdict::Fail(msg)
}

/// print / parse / JSON round trips of one Decimal256 value
fn value_decimal(v: &Nat) -> (Verdict, Vec<&'static str>) {
    let d = to_dec(v);
    let want = canon_decimal(v);
    let text = match guarded(|| d.to_string()) {
        Ok(t) => t,
        Err(e) => return (fail(format!("Decimal256({v}).to_string() aborted: {e}")), vec![]),
    };
    if text != want {
        return (fail(format!("Decimal256 atomics {v} renders as {text:?}, canonical numeral is {want:?}")), vec![]);
    }
    match guarded(|| Decimal256::from_str(&text)) {
        Ok(Ok(p)) if from_u256(&p.0) == *v => {}
        other => return (fail(format!("Decimal256 atomics {v}: parse(print)= {:?} (text {text:?})", other.map(|r| r.map(|p| from_u256(&p.0))))), vec![]),
    }
    // cosmwasm JSON (the wire format between contracts)
    match guarded(|| cosmwasm_std::to_vec(&d)) {
        Ok(Ok(bytes)) => {
            if bytes != format!("\"{}\"", want).into_bytes() {
                return (fail(format!("Decimal256 atomics {v}: JSON is {:?}, expected quoted canonical text", String::from_utf8_lossy(&bytes))), vec![]);
            }
            match guarded(|| cosmwasm_std::from_slice::<Decimal256>(&bytes)) {
                Ok(Ok(p)) if from_u256(&p.0) == *v => {}
                other => return (fail(format!("Decimal256 atomics {v}: cosmwasm JSON round trip gave {:?}", other.map(|r| r.map(|p| from_u256(&p.0))))), vec![]),
            }
        }
        other => return (fail(format!("Decimal256 atomics {v}: to_vec failed {:?}", other)), vec![]),
    }
    match guarded(|| serde_json::to_string(&d)) {
        Ok(Ok(js)) => match guarded(|| serde_json::from_str::<Decimal256>(&js)) {
            Ok(Ok(p)) if from_u256(&p.0) == *v && js == format!("\"{}\"", want) => {}
            other => return (fail(format!("Decimal256 atomics {v}: serde_json round trip gave {:?} via {js}", other.map(|r| r.map(|p| from_u256(&p.0)).map_err(|e| e.to_string())))), vec![]),
        },
        other => return (fail(format!("Decimal256 atomics {v}: serde_json::to_string failed {:?}", other.map(|r| r.map_err(|e| e.to_string())))), vec![]),
    }
    (Verdict::Pass, vec!["k:value-decimal"])
}

fn value_uint(v: &Nat) -> (Verdict, Vec<&'static str>) {
    let u = to_uint(v);
    let want = v.to_dec_string();
    let checks: Vec<(&str, Result<String, String>)> = vec![
        ("Display", guarded(|| u.to_string())),
        ("String::from", guarded(|| String::from(u))),
    ];
    for (name, r) in checks {
        match r {
            Ok(t) if t == want => {}
            other => return (fail(format!("Uint256 {v}: {name} gave {:?}", other)), vec![]),
        }
    }
    let parses: Vec<(&str, Result<Result<Uint256, String>, String>)> = vec![
        ("FromStr", guarded(|| Uint256::from_str(&want).map_err(|e| e.to_string()))),
        ("TryFrom<&str>", guarded(|| Uint256::try_from(want.as_str()).map_err(|e| e.to_string()))),
        ("cosmwasm JSON", guarded(|| {
            let b = cosmwasm_std::to_vec(&u).map_err(|e| e.to_string())?;
            if b != format!("\"{}\"", want).into_bytes() {
                return Err(format!("JSON is {:?}", String::from_utf8_lossy(&b)));
            }
            cosmwasm_std::from_slice::<Uint256>(&b).map_err(|e| e.to_string())
        })),
        ("serde_json", guarded(|| {
            let s = serde_json::to_string(&u).map_err(|e| e.to_string())?;
            if s != format!("\"{}\"", want) {
                return Err(format!("JSON is {s}"));
            }
            serde_json::from_str::<Uint256>(&s).map_err(|e| e.to_string())
        })),
    ];
    for (name, r) in parses {
        match r {
            Ok(Ok(p)) if from_u256(&p.0) == *v => {}
            other => return (fail(format!("Uint256 {v}: {name} round trip gave {:?}", other.map(|r| r.map(|p| from_u256(&p.0))))), vec![]),
        }
    }
    (Verdict::Pass, vec!["k:value-uint"])
}

#[derive(Debug, PartialEq, Clone)]
enum StrExpect {
    MustReject(&'static str),
    /// empty digit group: either rejected or read with the empty group as zero (DESIGN F8)
    Lenient(Option<Nat>),
    /// well formed and fits: if accepted, exactly this value (canonical numerals are covered by the
    /// round trip, which demands acceptance)
    IfAcceptedExactly(Nat),
}

fn all_digits(s: &str) -> bool {
    s.bytes().all(|b| b.is_ascii_digit())
}

/// Formatting a lenient reader might tolerate without changing what the numeral denotes: surrounding ASCII
/// white space, one leading '+', '_' as a digit separator.  Returns the bare numeral if `s` carries any.
fn strip_formatting(s: &str) -> Option<String> {
    let t = s.trim_matches(|c: char| c == ' ' || c == '\t' || c == '\n');
    let t = t.strip_prefix('+').unwrap_or(t);
    let t: String = t.chars().filter(|c| *c != '_').collect();
    if t != s { Some(t) } else { None }
}

/// a formatted numeral may be rejected; if it is accepted it must be read as the bare numeral's number
fn lenient(e: StrExpect) -> StrExpect {
    match e {
        StrExpect::IfAcceptedExactly(v) => StrExpect::Lenient(Some(v)),
        other => other,
    }
}

fn expect_decimal_str(s: &str) -> StrExpect {
    if let Some(bare) = strip_formatting(s) {
        return lenient(expect_decimal_str(&bare));
    }
    let parts: Vec<&str> = s.split('.').collect();
    if parts.len() > 2 {
        return StrExpect::MustReject("more than one dot");
    }
    if !parts.iter().all(|p| all_digits(p)) {
        return StrExpect::MustReject("non-digit character");
    }
    let frac = if parts.len() == 2 { parts[1] } else { "" };
    if frac.len() > 18 {
        return StrExpect::MustReject("more than 18 fractional digits");
    }
    let whole_n = if parts[0].is_empty() { Nat::zero() } else { Nat::from_dec_str(parts[0]).unwrap() };
    let frac_n = if frac.is_empty() { Nat::zero() } else { Nat::from_dec_str(frac).unwrap() };
    let value = whole_n.mul(&Nat::e18()).add(&frac_n.mul(&Nat::pow10(18 - frac.len() as u32)));
    let empty_group = parts[0].is_empty() || (parts.len() == 2 && frac.is_empty());
    if !value.fits256() {
        return StrExpect::MustReject("value exceeds the type");
    }
    if empty_group {
        return StrExpect::Lenient(Some(value));
    }
    StrExpect::IfAcceptedExactly(value)
}

fn expect_uint_str(s: &str) -> StrExpect {
    if let Some(bare) = strip_formatting(s) {
        return lenient(expect_uint_str(&bare));
    }
    if !all_digits(s) {
        return StrExpect::MustReject("non-digit character");
    }
    if s.is_empty() {
        return StrExpect::Lenient(Some(Nat::zero()));
    }
    let v = Nat::from_dec_str(s).unwrap();
    if !v.fits256() {
        return StrExpect::MustReject("value exceeds the type");
    }
    StrExpect::IfAcceptedExactly(v)
}

fn judge_parse(what: &str, s: &str, exp: &StrExpect, got: Result<Result<Nat, String>, String>) -> Result<&'static str, String> {
    // got: Err = abort, Ok(Err) = error value, Ok(Ok(v)) = accepted
    let accepted = match &got {
        Ok(Ok(v)) => Some(v.clone()),
        _ => None,
    };
    match (exp, accepted) {
        (StrExpect::MustReject(_), None) => Ok("o:rejected"),
        (StrExpect::MustReject(why), Some(v)) => Err(format!("{what} accepted {s:?} as {v} although it must be rejected ({why})")),
        (StrExpect::Lenient(_), None) => Ok("o:empty-group-rejected"),
        (StrExpect::Lenient(Some(want)), Some(v)) => {
            if &v == want { Ok("o:empty-group-lenient") } else { Err(format!("{what} accepted {s:?} as {v}, which is not the number it denotes ({want})")) }
        }
        (StrExpect::Lenient(None), Some(_)) => Ok("o:empty-group-lenient"),
        (StrExpect::IfAcceptedExactly(_), None) => Ok("o:wellformed-rejected"),
        (StrExpect::IfAcceptedExactly(want), Some(v)) => {
            if &v == want { Ok("o:accepted-exact") } else { Err(format!("{what} accepted {s:?} as {v}, which is not the number it denotes ({want})")) }
        }
    }
}

fn string_decimal(s: &str) -> (Verdict, Vec<&'static str>, bool) {
    let exp = expect_decimal_str(s);
    let mut classes = vec!["k:string-decimal"];
    let json_in = serde_json::to_string(s).unwrap();
    let entries: Vec<(&str, Result<Result<Nat, String>, String>)> = vec![
        ("Decimal256::from_str", guarded(|| Decimal256::from_str(s).map(|d| from_u256(&d.0)).map_err(|e| e.to_string()))),
        ("Decimal256 cosmwasm JSON", guarded(|| cosmwasm_std::from_slice::<Decimal256>(json_in.as_bytes()).map(|d| from_u256(&d.0)).map_err(|e| e.to_string()))),
        ("Decimal256 serde_json", guarded(|| serde_json::from_str::<Decimal256>(&json_in).map(|d| from_u256(&d.0)).map_err(|e| e.to_string()))),
    ];
    let mut rejected = false;
    for (what, got) in entries {
        match judge_parse(what, s, &exp, got) {
            Ok(c) => {
                if c != "o:accepted-exact" && c != "o:empty-group-lenient" {
                    rejected = true;
                }
                classes.push(c)
            }
            Err(m) => return (fail(m), classes, false),
        }
    }
    // the same numeral as a BARE JSON number token (no quotes): a reader may refuse it, but if it accepts it,
    // the token must be read as the number it denotes
    if is_json_number_token(s) {
        let bare = lenient(exp.clone());
        let entries: Vec<(&str, Result<Result<Nat, String>, String>)> = vec![
            ("Decimal256 cosmwasm JSON (bare number)", guarded(|| cosmwasm_std::from_slice::<Decimal256>(s.as_bytes()).map(|d| from_u256(&d.0)).map_err(|e| e.to_string()))),
            ("Decimal256 serde_json (bare number)", guarded(|| serde_json::from_str::<Decimal256>(s).map(|d| from_u256(&d.0)).map_err(|e| e.to_string()))),
        ];
        for (what, got) in entries {
            match judge_parse(what, s, &bare, got) {
                Ok(_) => classes.push("o:bare-json-number-judged"),
                Err(m) => return (fail(m), classes, false),
            }
        }
    }
    (Verdict::Pass, classes, rejected)
}

/// a JSON number token without sign and exponent: `0`, `12`, `0.5`, `12.050` (no leading zeros, no empty part)
fn is_json_number_token(s: &str) -> bool {
    let (w, f) = match s.split_once('.') {
        Some((w, f)) => (w, Some(f)),
        None => (s, None),
    };
    !w.is_empty() && all_digits(w) && (w == "0" || !w.starts_with('0')) && f.map(|f| !f.is_empty() && all_digits(f)).unwrap_or(true)
}

fn string_uint(s: &str) -> (Verdict, Vec<&'static str>, bool) {
    let exp = expect_uint_str(s);
    let mut classes = vec!["k:string-uint"];
    let json_in = serde_json::to_string(s).unwrap();
    let entries: Vec<(&str, Result<Result<Nat, String>, String>)> = vec![
        ("Uint256::from_str", guarded(|| Uint256::from_str(s).map(|d| from_u256(&d.0)).map_err(|e| e.to_string()))),
        ("Uint256::try_from", guarded(|| Uint256::try_from(s).map(|d| from_u256(&d.0)).map_err(|e| e.to_string()))),
        ("Uint256 cosmwasm JSON", guarded(|| cosmwasm_std::from_slice::<Uint256>(json_in.as_bytes()).map(|d| from_u256(&d.0)).map_err(|e| e.to_string()))),
        ("Uint256 serde_json", guarded(|| serde_json::from_str::<Uint256>(&json_in).map(|d| from_u256(&d.0)).map_err(|e| e.to_string()))),
    ];
    let mut rejected = false;
    for (what, got) in entries {
        match judge_parse(what, s, &exp, got) {
            Ok(c) => {
                if c != "o:accepted-exact" && c != "o:empty-group-lenient" {
                    rejected = true;
                }
                classes.push(c)
            }
            Err(m) => return (fail(m), classes, false),
        }
    }
    if is_json_number_token(s) && !s.contains('.') {
        let bare = lenient(exp.clone());
        let entries: Vec<(&str, Result<Result<Nat, String>, String>)> = vec![
            ("Uint256 cosmwasm JSON (bare number)", guarded(|| cosmwasm_std::from_slice::<Uint256>(s.as_bytes()).map(|d| from_u256(&d.0)).map_err(|e| e.to_string()))),
            ("Uint256 serde_json (bare number)", guarded(|| serde_json::from_str::<Uint256>(s).map(|d| from_u256(&d.0)).map_err(|e| e.to_string()))),
        ];
        for (what, got) in entries {
            match judge_parse(what, s, &bare, got) {
                Ok(_) => classes.push("o:bare-json-number-judged"),
                Err(m) => return (fail(m), classes, false),
            }
        }
    }
    (Verdict::Pass, classes, rejected)
}

fn widths(v: &Nat, x: u128) -> (Verdict, Vec<&'static str>) {
    let mut classes = vec!["k:width"];
    // 128 -> 256 -> 128 identity
    let r = guarded(|| {
        let u = Uint256::from(x);
        let u2 = Uint256::from(Uint128::new(x));
        let u3 = Uint256::from(x as u64);
        (from_u256(&u.0), from_u256(&u2.0), from_u256(&u3.0), u128::from(u), Uint128::from(u2).u128())
    });
    match r {
        Ok((a, b, c, back, back2)) => {
            if a != Nat::from_u128(x) || b != Nat::from_u128(x) || c != Nat::from_u64(x as u64) || back != x || back2 != x {
                return (fail(format!("u128 {x} -> Uint256 -> u128 is not the identity: {a} {b} {c} {back} {back2}")), classes);
            }
        }
        Err(e) => return (fail(format!("u128 {x} -> Uint256 -> u128 aborted: {e}")), classes),
    }
    // 256 -> 128 aborts iff it does not fit
    let u = to_uint(v);
    let got = guarded(|| u128::from(u));
    let got2 = guarded(|| Uint128::from(u).u128());
    for g in [got, got2] {
        match (v.to_u128(), g) {
            (Some(w), Ok(o)) if w == o => classes.push("o:narrow-fits"),
            (None, Err(_)) => classes.push("o:narrow-aborts"),
            (w, o) => return (fail(format!("Uint256 {v} -> u128: expected {:?}, observed {:?}", w, o)), classes),
        }
    }
    // Decimal <-> Decimal256
    let d = Decimal::new(Uint128::new(x));
    match guarded(|| Decimal256::from(d)) {
        Ok(d256) if from_u256(&d256.0) == Nat::from_u128(x) => match guarded(|| Decimal::from(d256)) {
            Ok(back) if back == d => {}
            other => return (fail(format!("Decimal atomics {x} -> Decimal256 -> Decimal gave {:?}", other)), classes),
        },
        other => return (fail(format!("Decimal atomics {x} -> Decimal256 gave {:?}", other.map(|p| from_u256(&p.0)))), classes),
    }
    let got = guarded(|| Decimal::from(to_dec(v)));
    match (v.to_u128(), got) {
        (Some(w), Ok(o)) if o.atomics().u128() == w => classes.push("o:narrow-fits"),
        (None, Err(_)) => classes.push("o:narrow-aborts"),
        (w, o) => return (fail(format!("Decimal256 atomics {v} -> Decimal: expected atomics {:?}, observed {:?}", w, o)), classes),
    }
    (Verdict::Pass, classes)
}

const ODD: [&str; 16] = ["-", "+", " ", "e", "E", "_", ",", "x", "\u{0663}", "\u{FF11}", "\n", "\0", "/", ":", "e5", "0x"];

fn digits(s: &mut Src, n: usize, leading_zeros: usize) -> String {
    let mut out = "0".repeat(leading_zeros);
    for i in 0..n {
        let d = s.below(10) as u8;
        let d = if i == 0 && leading_zeros == 0 && n > 1 && d == 0 { 1 } else { d };
        out.push((b'0' + d) as char);
    }
    out
}

fn gen_string(s: &mut Src, decimal: bool) -> (String, &'static str) {
    let shape = s.weighted(&[6, 3, 3, 3, 2]);
    match shape {
        0 | 1 => {
            // numeral grammar (1: with a mutation)
            let lz = if s.chance(1, 4) { s.range(1, 4) as usize } else { 0 };
            let wl = match s.weighted(&[4, 4, 2, 2]) {
                0 => s.range(0, 3) as usize,
                1 => s.range(4, 40) as usize,
                2 => s.range(57, 62) as usize, // around the decimal maximum (60 whole digits)
                _ => s.range(76, 80) as usize, // around the integer maximum (78 digits)
            };
            let mut out = digits(s, wl, lz);
            if decimal && s.chance(3, 4) {
                out.push('.');
                let fl = match s.weighted(&[3, 3, 2, 2]) {
                    0 => s.range(0, 3) as usize,
                    1 => s.range(4, 17) as usize,
                    2 => 18,
                    _ => s.range(19, 25) as usize,
                };
                let tz = if s.chance(1, 3) { s.range(1, 3) as usize } else { 0 };
                let body = fl.saturating_sub(tz);
                for _ in 0..body {
                    out.push((b'0' + s.below(10) as u8) as char);
                }
                out.push_str(&"0".repeat(fl - body));
            }
            if shape == 1 {
                let ins = match s.weighted(&[4, 2]) {
                    0 => ODD[s.idx(ODD.len())].to_string(),
                    _ => ".".to_string(),
                };
                // insert at a char boundary
                let pos = s.idx(out.len() + 1);
                out.insert_str(pos, &ins);
                return (out, "g:mutated-numeral");
            }
            (out, "g:numeral")
        }
        2 => {
            // rendering of a value near the type maximum, possibly beyond it
            let k = Nat::from_u128(s.bits_u128(70));
            let base = Nat::max256();
            let v = if s.bool() { base.add(&k) } else { base.checked_sub(&k).unwrap_or_else(Nat::zero) };
            let txt = if decimal {
                // shift the boundary into the fraction as well
                let (w, f) = v.divrem(&Nat::e18()).unwrap();
                format!("{}.{:0>18}", w.to_dec_string(), f.to_dec_string())
            } else {
                v.to_dec_string()
            };
            (txt, "g:near-max")
        }
        3 => {
            // canonical rendering of a structured value with extra zeros around it
            let (v, _) = gen256(s);
            let mut txt = if decimal { canon_decimal(&v) } else { v.to_dec_string() };
            if s.bool() {
                txt = format!("{}{}", "0".repeat(s.range(1, 5) as usize), txt);
            }
            if decimal && s.bool() {
                if !txt.contains('.') {
                    txt.push('.');
                }
                let have = txt.len() - txt.find('.').unwrap() - 1;
                let add = s.range(0, 20u64.saturating_sub(have as u64).max(1)) as usize;
                txt.push_str(&"0".repeat(add));
            }
            (txt, "g:padded-canonical")
        }
        _ => {
            // random longer strings over a small alphabet
            let n = s.range(0, 120) as usize;
            let alpha: Vec<&str> = vec!["0", "1", "9", "5", ".", "0", "7", "-", " ", "e", "\u{0663}", "00000000", "99999999999"];
            let mut out = String::new();
            for _ in 0..n {
                out.push_str(alpha[s.weighted(&[8, 8, 8, 8, 2, 8, 8, 1, 1, 1, 1, 3, 3])]);
            }
            (out, "g:random")
        }
    }
}

fn run(t: &Tape, want_desc: bool) -> CaseResult {
    let mut s = Src::new(&t.head);
    let kind = s.weighted(&[5, 3, 6, 4, 3]);
    let mut classes: Vec<&'static str>;
    let verdict;
    let nontrivial;
    let key;
    let mut descv = json!(null);
    match kind {
        0 | 1 => {
            // fractions with leading / trailing zeros and exactly 18 digits: adjust the low part
            let (mut v, cls) = gen256(&mut s);
            if kind == 0 && s.chance(1, 2) {
                let w = v.div(&Nat::e18());
                let f = match s.below(5) {
                    0 => Nat::from_u64(s.below(1000)),                             // leading zeros
                    1 => Nat::from_u64(s.below(1000)).mul(&Nat::pow10(s.below(16) as u32)), // trailing zeros
                    2 => Nat::from_u64(999_999_999_999_999_999 - s.below(3)),
                    3 => Nat::pow10(s.below(18) as u32),
                    _ => Nat::from_u64(s.below(1_000_000_000_000_000_000)),
                };
                let cand = w.mul(&Nat::e18()).add(&f);
                if cand.fits256() {
                    v = cand;
                }
            }
            let (vd, cl) = if kind == 0 { value_decimal(&v) } else { value_uint(&v) };
            verdict = vd;
            classes = cl;
            classes.push(CLASS_NAMES[cls]);
            nontrivial = v.bits() > 64 && (kind == 1 || !v.rem(&Nat::e18()).is_zero());
            let l = v.to_limbs256().unwrap();
            key = hash_words(&[kind as u128, (l[1] as u128) << 64 | l[0] as u128, (l[3] as u128) << 64 | l[2] as u128]);
            if want_desc || matches!(verdict, Verdict::Fail(_)) {
                descv = json!({"kind": if kind == 0 {"Decimal256 value round trips"} else {"Uint256 value round trips"}, "atomics": v.to_string(), "canonical": if kind == 0 { canon_decimal(&v) } else { v.to_dec_string() }});
            }
        }
        2 | 3 => {
            let (txt, gcls) = gen_string(&mut s, kind == 2);
            let (vd, cl, rejected) = if kind == 2 { string_decimal(&txt) } else { string_uint(&txt) };
            verdict = vd;
            classes = cl;
            classes.push(gcls);
            let zeros = (txt.len() > 1 && txt.starts_with('0')) || (txt.contains('.') && txt.ends_with('0'));
            nontrivial = rejected || zeros;
            key = fnv64(format!("{}:{}", kind, txt).as_bytes());
            if want_desc || matches!(verdict, Verdict::Fail(_)) {
                descv = json!({"kind": if kind == 2 {"Decimal256 string"} else {"Uint256 string"}, "string": txt,
                    "expectation": format!("{:?}", if kind == 2 { expect_decimal_str(&txt) } else { expect_uint_str(&txt) }), "classes": classes});
            }
        }
        _ => {
            let (v, cls) = gen256(&mut s);
            // bias toward the 2^128 boundary
            let v = if s.chance(1, 3) {
                let k = Nat::from_u64(s.below(4));
                if s.bool() { Nat::pow2(128).add(&k) } else { Nat::pow2(128).sub(&k.add(&Nat::one())) }
            } else {
                v
            };
            let x = gen128(&mut s);
            let (vd, cl) = widths(&v, x);
            verdict = vd;
            classes = cl;
            classes.push(CLASS_NAMES[cls]);
            nontrivial = v.bits() > 64;
            let l = v.to_limbs256().unwrap();
            key = hash_words(&[4, x, (l[1] as u128) << 64 | l[0] as u128, (l[3] as u128) << 64 | l[2] as u128]);
            if want_desc || matches!(verdict, Verdict::Fail(_)) {
                descv = json!({"kind": "width conversions", "value256": v.to_string(), "value128": x.to_string()});
            }
        }
    }
    CaseResult { verdict, nontrivial, key, classes, desc: if descv.is_null() { None } else { Some(descv) } }
}

fn direct(v: &Value) -> Result<CaseResult, String> {
    let kind = v.get("kind").and_then(|x| x.as_str()).ok_or("missing kind")?;
    let (verdict, classes) = match kind {
        "decimal-string" => {
            let s = v.get("string").and_then(|x| x.as_str()).ok_or("missing string")?;
            let (a, b, _) = string_decimal(s);
            (a, b)
        }
        "uint-string" => {
            let s = v.get("string").and_then(|x| x.as_str()).ok_or("missing string")?;
            let (a, b, _) = string_uint(s);
            (a, b)
        }
        "decimal-value" | "uint-value" | "width" => {
            let n = Nat::from_dec_str(v.get("atomics").and_then(|x| x.as_str()).ok_or("missing atomics")?).filter(|n| n.fits256()).ok_or("bad atomics")?;
            match kind {
                "decimal-value" => value_decimal(&n),
                "uint-value" => value_uint(&n),
                _ => widths(&n, n.to_u128().unwrap_or(u128::MAX)),
            }
        }
        k => return Err(format!("unknown kind {k}")),
    };
    Ok(CaseResult { verdict, nontrivial: true, key: fnv64(v.to_string().as_bytes()), classes, desc: Some(v.clone()) })
}

pub fn suites() -> Vec<Suite> {
    vec![Suite {
        name: "text",
        about: "print/parse/JSON round trips, canonical text, numeral-string grammar, width conversions",
        head_len: 160,
        op_len: 0,
        max_ops: 0,
        quick_cases: 4_000_000,
        thorough_cases: 60_000_000,
        run,
        direct: Some(direct),
        must_hit: &["k:value-decimal", "k:value-uint", "k:string-decimal", "k:string-uint", "k:width", "o:rejected", "o:accepted-exact",
            "o:narrow-fits", "o:narrow-aborts", "g:numeral", "g:mutated-numeral", "g:near-max", "g:padded-canonical", "g:random"],
    }]
}

pub const RULE: &str = "case kinds: (a) Decimal256 / Uint256 values from the structured classes of C08 plus fractions with leading/trailing zeros and exactly 18 digits -> print, parse, cosmwasm-JSON and serde_json round trips and comparison with the oracle's canonical numeral; (b) strings from a numeral grammar (whole part 0..80 digits with leading zeros, optional dot, fraction 0..25 digits), single mutations (non-digit, second dot, sign, whitespace, non-ASCII digit, exponent), renderings around the type maximum, zero-padded canonical renderings and random strings -> FromStr / TryFrom / JSON deserialisation judged by the grammar oracle; (c) 128<->256-bit integer and decimal conversions around 2^128. non-trivial = a value >= 2^64 with a non-zero fraction (or any multi-limb integer), or a string that is rejected, or a string with leading/trailing zeros; distinct = hash of the value or string";
pub const ASSUMPTIONS: &[&str] = &[
    "Nat's decimal rendering/parsing (validated against python3 golden vectors) defines 'the number a string denotes'",
    "strings with an empty digit group (\"\", \".\", \"1.\", \".5\") may be rejected or read with the empty group as zero (DESIGN F8); well-formed non-canonical strings (leading zeros) are only required to denote their value if accepted",
    "an abort (panic) while parsing counts as a rejection (DESIGN F9)",
];
