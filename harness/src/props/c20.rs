//! C20 — Liquidity can always be withdrawn (DESIGN.md C20).

use crate::engine::*;
use crate::hist::*;
use crate::nat::{n, Nat};
use crate::props::c04::judge_withdraw;
use crate::sys::*;
use crate::world::*;
use cosmwasm_std::{to_binary, Uint128};

#[derive(Default)]
pub struct C20Oracle {
    injected_ok: u64,
    saw_swap: bool,
    saw_other_liquidity: bool,
    nontrivial: u64,
    skipped_precondition: u64,
}

fn precondition(r: [u128; 2], a: u128, s: u128) -> bool {
    // r_i*a/S >= r_i/10^18 + 2  <=>  r_i*a*10^18 >= (r_i + 2*10^18)*S
    (0..2).all(|i| n(r[i]).mul(&n(a)).mul(&Nat::e18()) >= n(r[i]).add(&Nat::e18().mul(&n(2))).mul(&n(s)))
}

impl C20Oracle {
    fn inject(&mut self, w: &mut World, idx: usize, classes: &mut Vec<&'static str>) -> Verdict {
        let ledger = w.ledger();
        for p in 0..w.pairs.len() {
            let (r0, r1, s) = w.pool(p);
            if s == 0 {
                continue;
            }
            let pr = w.pairs[p].clone();
            let holders: Vec<(String, u128)> = ledger
                .cw20
                .iter()
                .filter(|((t, acc), bal)| t == pr.lp.as_str() && **bal > 0 && acc != pr.lp.as_str() && acc != pr.addr.as_str())
                .map(|((_, acc), bal)| (acc.clone(), *bal))
                .collect();
            for (holder, bal) in holders {
                let mut amounts = vec![1, 2, bal / 2, bal.saturating_sub(1), bal];
                amounts.sort();
                amounts.dedup();
                for a in amounts {
                    if a == 0 || a > bal {
                        continue;
                    }
                    if !precondition([r0, r1], a, s) {
                        self.skipped_precondition += 1;
                        classes.push("i:precondition-false");
                        continue;
                    }
                    let mut f = w.fork();
                    let step = Step {
                        sender: holder.clone(),
                        call: Call::Cw20 {
                            token: pr.lp.to_string(),
                            msg: cw20::Cw20ExecuteMsg::Send { contract: pr.addr.to_string(), amount: Uint128::new(a), msg: to_binary(&haloswap::pair::Cw20HookMsg::WithdrawLiquidity {}).unwrap() },
                        },
                        funds: vec![],
                    };
                    let rec = f.exec(step);
                    if !rec.outcome.is_ok() {
                        return Verdict::Fail(format!(
                            "{}: {} holds {} LP of pair{} (reserves {}, {}; supply {}); withdrawing {} meets the entitlement precondition but the call failed: {}",
                            if idx == usize::MAX { "at the end of the history".to_string() } else { format!("after step {}", idx) }, holder, bal, p, r0, r1, s, a, rec.outcome.err_text()
                        ));
                    }
                    let mut cl = vec![];
                    if let Err(m) = judge_withdraw(&f, &rec, p, a, &holder, &holder, idx, &mut cl) {
                        return Verdict::Fail(format!("injected withdrawal after step {}: {}", idx, m));
                    }
                    self.injected_ok += 1;
                    classes.push("i:withdrawal-succeeded");
                    let mag = n(r0.max(r1)).bits();
                    classes.push(if mag <= 20 { "m:dust" } else if mag <= 64 { "m:<=2^64" } else if mag <= 100 { "m:<=2^100" } else { "m:>2^100" });
                    if self.saw_swap && self.saw_other_liquidity {
                        self.nontrivial += 1;
                    }
                }
            }
        }
        Verdict::Pass
    }
}

impl StepOracle for C20Oracle {
    fn on_step(&mut self, cx: &mut StepCtx, classes: &mut Vec<&'static str>) -> Verdict {
        if cx.rec.outcome.is_ok() {
            match cx.intent {
                Intent::Swap { .. } | Intent::Route { .. } => self.saw_swap = true,
                Intent::Provide { .. } => {
                    if cx.kind.is_some() {
                        self.saw_other_liquidity = true
                    }
                }
                Intent::Transfer { to, .. } => {
                    if pair_by_addr(cx.world, to).is_some() {
                        self.saw_other_liquidity = true
                    }
                }
                _ => {}
            }
        }
        if cx.index % 6 == 5 {
            return self.inject(cx.world, cx.index, classes);
        }
        Verdict::Pass
    }
    fn finish(&mut self, w: &mut World, classes: &mut Vec<&'static str>) -> Verdict {
        self.inject(w, usize::MAX, classes)
    }
    fn nontrivial(&self) -> bool {
        self.nontrivial > 0
    }
}

fn run(t: &Tape, want_desc: bool) -> CaseResult {
    let mut o = C20Oracle::default();
    let h = run_history(t, &HOSTILE, 15, &mut o, want_desc);
    hist_case(t, h)
}
fn run_mixed(t: &Tape, want_desc: bool) -> CaseResult {
    let mut o = C20Oracle::default();
    let h = run_history(t, &MIXED, 15, &mut o, want_desc);
    hist_case(t, h)
}

pub fn suites() -> Vec<Suite> {
    vec![
        Suite {
            name: "withdrawable_hostile",
            about: "hostile prefixes (extreme swaps, donations to 2^120, dust pools, commission 0 and 1); after every 6th step and at the end every LP holder's withdrawals of {1,2,half,all-1,all} that meet the entitlement precondition are executed on a fork and must succeed",
            head_len: HEAD_LEN,
            op_len: OP_LEN,
            max_ops: 24,
            quick_cases: 8_000,
            thorough_cases: 200_000,
            run,
            direct: Some(direct_with::<C20Oracle>),
            must_hit: &["i:withdrawal-succeeded", "i:precondition-false", "m:dust", "m:<=2^64", "m:<=2^100", "m:>2^100"],
        },
        Suite {
            name: "withdrawable_mixed",
            about: "the same injection after mixed histories (all operation kinds, adversarial shapes)",
            head_len: HEAD_LEN,
            op_len: OP_LEN,
            max_ops: 24,
            quick_cases: 5_000,
            thorough_cases: 150_000,
            run: run_mixed,
            direct: Some(direct_with::<C20Oracle>),
            must_hit: &["i:withdrawal-succeeded", "i:precondition-false"],
        },
    ]
}

pub const RULE: &str = "case = world + history (profiles 'hostile' and 'mixed'); after every 6th step and after the last one, EVERY holder of LP tokens found in chain storage (except the LP token's own address and the pair) and every a in {1, 2, balance/2, balance-1, balance} is examined: if r_i*a*10^18 >= (r_i + 2*10^18)*S for both assets the withdrawal is executed on a fork and must succeed and meet C04's bounds; otherwise it is counted and skipped; non-trivial = an injected withdrawal whose precondition holds after a prefix containing a successful swap and a provision or donation by the generator; distinct = hash of the tape";
pub const ASSUMPTIONS: &[&str] = &[
    "cw-multi-test chain model; a fork is a fresh App with the same code registrations and the byte-identical storage (validated by the harness self-check)",
    "zero-amount transfers fail in cw20-base and in the bank (as on a chain): the property's precondition excludes refunds that round to 0",
];
