//! C14 — Privileged and internal entry points reject every other caller (DESIGN.md C14).
//!
//! The (message x caller role) matrix is enumerated completely for every generated world; the
//! arguments, the world and the ownership state are generated.  Oracle: the same message in the
//! same state (fork) sent by the authorised caller (must succeed, else the cell is vacuous) and by
//! the role under test (must fail with whole-state equality unless the statement authorises it).

use crate::engine::*;
use crate::hist::*;
use crate::world::*;
use cosmwasm_std::{to_binary, Coin, CosmosMsg, Uint128, WasmMsg};
use cw20::{Cw20ExecuteMsg, Cw20ReceiveMsg};
use haloswap::asset::{Asset, AssetInfo, CreatePairRequirements, LPTokenInfo};
use haloswap::factory::ExecuteMsg as FactoryExec;
use haloswap::pair::{Cw20HookMsg as PairHook, ExecuteMsg as PairExec};
use haloswap::router::{ExecuteMsg as RouterExec, SwapOperation};
use serde_json::{json, Value};
use std::collections::BTreeMap;

pub const MESSAGES: [&str; 9] = [
    "factory.UpdateConfig", "factory.CreatePair", "factory.AddNativeTokenDecimals", "factory.MigratePair",
    "pair.UpdateNativeTokenDecimals", "pair.Receive(WithdrawLiquidity)", "pair.Receive(Swap)",
    "router.ExecuteSwapOperation", "router.AssertMinimumReceive",
];

#[derive(Clone, Debug)]
struct Role {
    name: &'static str,
    addr: String,
    via_proxy: bool,
}

fn label(msg: usize, role: &str, what: &str) -> &'static str {
    use std::collections::HashMap;
    use std::sync::{Mutex, OnceLock};
    static T: OnceLock<Mutex<HashMap<String, &'static str>>> = OnceLock::new();
    let k = format!("cell {} x {}: {}", MESSAGES[msg], role, what);
    let mut m = T.get_or_init(|| Mutex::new(HashMap::new())).lock().unwrap();
    if let Some(v) = m.get(&k) {
        return v;
    }
    let v: &'static str = Box::leak(k.clone().into_boxed_str());
    m.insert(k, v);
    v
}

struct Cell {
    /// target contract and JSON message
    contract: String,
    msg: cosmwasm_std::Binary,
    /// address of the caller the statement authorises (None = nobody can be authorised, e.g. a
    /// swap hook on a pair without cw20 assets)
    authorised: Vec<String>,
    twin: Option<String>,
}

fn build_cell(w: &World, s: &mut Src, m: usize, current_owner: &str, pair: usize) -> Option<Cell> {
    let pr = &w.pairs[pair];
    let c = |contract: &str, msg: cosmwasm_std::Binary, authorised: Vec<String>, twin: Option<String>| Some(Cell { contract: contract.to_string(), msg, authorised, twin });
    match m {
        0 => {
            let owner = match s.weighted(&[2, 2, 1]) {
                0 => None,
                1 => Some(w.actors[2].to_string()),
                _ => Some(current_owner.to_string()),
            };
            let msg = FactoryExec::UpdateConfig { owner, token_code_id: if s.bool() { Some(w.codes.cw20) } else { None }, pair_code_id: if s.bool() { Some(w.codes.pair) } else { None } };
            c(w.factory.as_str(), to_binary(&msg).unwrap(), vec![current_owner.to_string()], Some(current_owner.to_string()))
        }
        1 => {
            // a fresh asset set
            let all = w.all_assets();
            let mut fresh = vec![];
            for i in 0..all.len() {
                for j in (i + 1)..all.len() {
                    if !w.pairs.iter().any(|p| (p.assets[0] == all[i] && p.assets[1] == all[j]) || (p.assets[0] == all[j] && p.assets[1] == all[i])) {
                        fresh.push((all[i], all[j]));
                    }
                }
            }
            if fresh.is_empty() {
                return None;
            }
            let (a, b) = fresh[s.idx(fresh.len())];
            let msg = FactoryExec::CreatePair {
                asset_infos: [w.asset_info(a), w.asset_info(b)],
                requirements: CreatePairRequirements { whitelist: vec![], first_asset_minimum: Uint128::zero(), second_asset_minimum: Uint128::zero() },
                commission_rate: None,
                lp_token_info: LPTokenInfo { lp_token_name: "halo-lp".into(), lp_token_symbol: "HLP".into(), lp_token_decimals: None },
            };
            c(w.factory.as_str(), to_binary(&msg).unwrap(), vec![current_owner.to_string()], Some(current_owner.to_string()))
        }
        2 => {
            let msg = FactoryExec::AddNativeTokenDecimals { denom: w.natives[s.idx(w.natives.len())].clone(), decimals: s.below(19) as u8 };
            c(w.factory.as_str(), to_binary(&msg).unwrap(), vec![current_owner.to_string()], Some(current_owner.to_string()))
        }
        3 => {
            let msg = FactoryExec::MigratePair { contract: pr.addr.to_string(), code_id: if s.bool() { Some(w.codes.pair) } else { None } };
            c(w.factory.as_str(), to_binary(&msg).unwrap(), vec![current_owner.to_string()], Some(current_owner.to_string()))
        }
        4 => {
            let denom = match pr.infos.iter().find_map(|i| if let AssetInfo::NativeToken { denom } = i { Some(denom.clone()) } else { None }) {
                Some(d) if s.chance(3, 4) => d,
                _ => w.natives[s.idx(w.natives.len())].clone(),
            };
            // half of the messages are a faithful replica of what the factory itself would push right now (the
            // pair's current decimals, the denom's registered value in its slot): a pair that judged the
            // CONTENT instead of the sender would accept it
            let mut dec = [s.below(19) as u8, s.below(19) as u8];
            if s.bool() {
                if let Ok(pi) = w.query::<haloswap::asset::PairInfo>(pr.addr.as_str(), &haloswap::pair::QueryMsg::Pair {}) {
                    dec = pi.asset_decimals;
                    if let Ok(reg) = w.query::<haloswap::factory::NativeTokenDecimalsResponse>(w.factory.as_str(), &haloswap::factory::QueryMsg::NativeTokenDecimals { denom: denom.clone() }) {
                        for i in 0..2 {
                            if pr.infos[i] == (AssetInfo::NativeToken { denom: denom.clone() }) {
                                dec[i] = reg.decimals;
                            }
                        }
                    }
                    if s.bool() {
                        // ... with the OTHER slot changed
                        let j = s.idx(2);
                        if pr.infos[j] != (AssetInfo::NativeToken { denom: denom.clone() }) {
                            dec[j] = (dec[j] + 1 + s.below(17) as u8) % 19;
                        }
                    }
                }
            }
            let msg = PairExec::UpdateNativeTokenDecimals { denom, asset_decimals: dec };
            c(pr.addr.as_str(), to_binary(&msg).unwrap(), vec![w.factory.to_string()], Some(w.factory.to_string()))
        }
        5 => {
            // forged withdraw hook: the pair holds donated LP tokens, so the burn would go through
            let held = w.cw20_balance(pr.lp.as_str(), pr.addr.as_str());
            let amount = if held > 1 { 1 + s.upto_u128(held - 1) } else { 1 };
            let msg = PairExec::Receive(Cw20ReceiveMsg { sender: w.actors[1].to_string(), amount: Uint128::new(amount), msg: to_binary(&PairHook::WithdrawLiquidity {}).unwrap() });
            c(pr.addr.as_str(), to_binary(&msg).unwrap(), vec![pr.lp.to_string()], Some(pr.lp.to_string()))
        }
        6 => {
            // forged swap hook naming one of the pair's cw20 assets (or, on a pair without any, a native one)
            let toks: Vec<usize> = (0..2).filter(|&i| !pr.infos[i].is_native_token()).collect();
            let side = if toks.is_empty() { s.idx(2) } else { toks[s.idx(toks.len())] };
            let (r0, r1, _) = w.pool(pair);
            let r = if side == 0 { r0 } else { r1 };
            let amount = 1 + frac(s, r / 4);
            let hook = PairHook::Swap { offer_asset: Asset { info: pr.infos[side].clone(), amount: Uint128::new(amount) }, belief_price: None, max_spread: None, to: Some(w.actors[1].to_string()) };
            let msg = PairExec::Receive(Cw20ReceiveMsg { sender: w.actors[1].to_string(), amount: Uint128::new(amount), msg: to_binary(&hook).unwrap() });
            let authorised: Vec<String> = pr.infos.iter().filter_map(|i| if let AssetInfo::Token { contract_addr } = i { Some(contract_addr.clone()) } else { None }).collect();
            let twin = if let AssetInfo::Token { contract_addr } = &pr.infos[side] { Some(contract_addr.clone()) } else { None };
            c(pr.addr.as_str(), to_binary(&msg).unwrap(), authorised, twin)
        }
        7 => {
            let side = s.idx(2);
            let msg = RouterExec::ExecuteSwapOperation {
                operation: SwapOperation::HaloSwap { offer_asset_info: pr.infos[side].clone(), ask_asset_info: pr.infos[1 - side].clone() },
                to: if s.bool() { Some(w.actors[1].to_string()) } else { None },
            };
            c(w.router.as_str(), to_binary(&msg).unwrap(), vec![w.router.to_string()], Some(w.router.to_string()))
        }
        _ => {
            let msg = RouterExec::AssertMinimumReceive { asset_info: pr.infos[s.idx(2)].clone(), prev_balance: Uint128::zero(), minimum_receive: Uint128::zero(), receiver: w.actors[1].to_string() };
            c(w.router.as_str(), to_binary(&msg).unwrap(), vec![w.router.to_string()], Some(w.router.to_string()))
        }
    }
}

fn send(w: &mut World, sender: &str, via_proxy: bool, contract: &str, msg: &cosmwasm_std::Binary) -> StepRecord {
    if via_proxy {
        w.exec(Step {
            sender: sender.to_string(),
            call: Call::Proxy { msgs: vec![CosmosMsg::Wasm(WasmMsg::Execute { contract_addr: contract.to_string(), msg: msg.clone(), funds: vec![] })] },
            funds: vec![],
        })
    } else {
        w.exec(Step { sender: sender.to_string(), call: Call::Raw { contract: contract.to_string(), msg: msg.clone() }, funds: vec![] })
    }
}

fn run(t: &Tape, want_desc: bool) -> CaseResult {
    let mut s = Src::new(&t.head);
    let mut prof = MIXED.clone();
    prof.max_pairs = 2;
    let mut cfg = gen_world_cfg(&mut s, &prof);
    // in half of the worlds the factory's chain-level admin - the account that may migrate its code - is
    // an account of its own, never named owner by anybody
    cfg.separate_factory_admin = s.bool();
    let mut w = World::build(&cfg).unwrap_or_else(|e| panic!("world build failed (harness): {e}"));
    let mut classes: Vec<&'static str> = vec![];
    let mut log: Vec<Value> = vec![];
    // --- states: liquidity on every pair, donated LP tokens held by every pair, router funded ----------
    for p in 0..w.pairs.len() {
        let st = gen_seed_liquidity(&w, &mut s, p, &prof);
        let provider = st.sender.clone();
        let rec = w.exec(st);
        if rec.outcome.is_ok() {
            let bal = w.cw20_balance(w.pairs[p].lp.as_str(), &provider);
            if bal >= 4 && s.chance(7, 8) {
                let lp = w.pairs[p].lp.to_string();
                let to = w.pairs[p].addr.to_string();
                w.exec(Step { sender: provider, call: Call::Cw20 { token: lp, msg: Cw20ExecuteMsg::Transfer { recipient: to, amount: Uint128::new(bal / 2) } }, funds: vec![] });
                classes.push("state:pair-holds-donated-lp");
            }
            classes.push("state:pair-with-liquidity");
        } else {
            classes.push("state:pair-without-liquidity");
        }
    }
    if s.chance(7, 8) {
        // the router holds something to swap, so the authorised twin of ExecuteSwapOperation can succeed
        for a in w.all_assets() {
            let info = w.asset_info(a);
            let from = w.actors[0].to_string();
            match &info {
                AssetInfo::NativeToken { denom } => {
                    w.exec(Step { sender: from, call: Call::Bank { to: w.router.to_string(), coins: vec![Coin { denom: denom.clone(), amount: Uint128::new(1000) }] }, funds: vec![] });
                }
                AssetInfo::Token { contract_addr } => {
                    w.exec(Step { sender: from, call: Call::Cw20 { token: contract_addr.clone(), msg: Cw20ExecuteMsg::Transfer { recipient: w.router.to_string(), amount: Uint128::new(1000) } }, funds: vec![] });
                }
            }
        }
    }
    let original_owner = w.owner.to_string();
    let new_owner = w.actors[3].to_string();
    let mut verdict = Verdict::Pass;
    let mut judged = 0u64;
    let mut cells_seen: BTreeMap<(usize, &'static str), u64> = BTreeMap::new();
    'states: for transferred in [false, true] {
        let mut base = w.fork();
        let mut current_owner = original_owner.clone();
        let mut former: Vec<String> = vec![];
        if transferred {
            // the transfer message may or may not also (re)set the code ids
            let tci = if s.bool() { Some(w.codes.cw20) } else { None };
            let pci = if s.bool() { Some(w.codes.pair) } else { None };
            let rec = base.exec(Step { sender: original_owner.clone(), call: Call::Factory { msg: FactoryExec::UpdateConfig { owner: Some(new_owner.clone()), token_code_id: tci, pair_code_id: pci } }, funds: vec![] });
            if !rec.outcome.is_ok() {
                verdict = Verdict::Fail(format!("the owner's UpdateConfig{{owner}} failed: {}", rec.outcome.err_text()));
                break;
            }
            current_owner = new_owner.clone();
            classes.push("state:after-ownership-transfer");
            // sometimes ownership moves on once more: both earlier owners are then former owners
            if s.chance(1, 3) {
                let third = base.actors[2].to_string();
                let rec = base.exec(Step { sender: new_owner.clone(), call: Call::Factory { msg: FactoryExec::UpdateConfig { owner: Some(third.clone()), token_code_id: None, pair_code_id: None } }, funds: vec![] });
                if !rec.outcome.is_ok() {
                    verdict = Verdict::Fail(format!("the new owner's UpdateConfig{{owner}} failed although ownership was transferred to it: {}", rec.outcome.err_text()));
                    break;
                }
                former.push(new_owner.clone());
                current_owner = third;
                classes.push("state:after-second-ownership-transfer");
            }
        } else {
            classes.push("state:before-ownership-transfer");
        }
        // in a third of the states the owner has migrated every pair (to the pair code or to its second stored
        // copy) and the factory itself before the cells are probed
        if s.chance(1, 3) {
            let mut migrated = 0;
            for p in base.pairs.clone() {
                let code = if s.bool() { base.codes.pair } else { base.codes.pair_alt };
                let rec = base.exec(Step { sender: current_owner.clone(), call: Call::Factory { msg: FactoryExec::MigratePair { contract: p.addr.to_string(), code_id: Some(code) } }, funds: vec![] });
                if rec.outcome.is_ok() {
                    migrated += 1;
                }
            }
            if s.bool() {
                let fcode = base.codes.factory;
                let factory = base.factory.to_string();
                // by its chain-level admin: the ORIGINAL owner account, or the separate admin account
                let admin = base.factory_admin.to_string();
                let r = base.exec(Step { sender: admin, call: Call::Migrate { contract: factory, code_id: fcode }, funds: vec![] });
                if r.outcome.is_ok() {
                    classes.push(if base.cfg.separate_factory_admin { "state:after-factory-migration-by-a-separate-admin" } else { "state:after-factory-migration-by-the-owner" });
                }
            }
            if migrated > 0 {
                classes.push("state:after-pair-migration");
            }
        }
        // in a third of the states the owner has re-registered a denom, so the factory has pushed a
        // decimals update into the pairs (their stored pair info was rewritten) before the cells are probed
        if s.chance(1, 3) {
            let d = base.natives[s.idx(base.natives.len())].clone();
            let rec = base.exec(Step { sender: current_owner.clone(), call: Call::Factory { msg: FactoryExec::AddNativeTokenDecimals { denom: d, decimals: s.below(19) as u8 } }, funds: vec![] });
            if rec.outcome.is_ok() {
                classes.push("state:after-decimals-re-registration");
            }
        }
        // caller roles
        let mut roles: Vec<Role> = vec![
            Role { name: "current-owner", addr: current_owner.clone(), via_proxy: false },
            Role { name: "stranger", addr: base.actors[0].to_string(), via_proxy: false },
            Role { name: "fresh-address", addr: fresh_addr(1).to_string(), via_proxy: false },
            Role { name: "factory", addr: base.factory.to_string(), via_proxy: false },
            Role { name: "router", addr: base.router.to_string(), via_proxy: false },
            Role { name: "rogue-cw20(impersonated)", addr: base.proxy.to_string(), via_proxy: false },
            Role { name: "rogue-cw20(via-forward)", addr: base.actors[0].to_string(), via_proxy: true },
        ];
        if base.cfg.separate_factory_admin {
            // (may migrate the factory's code; was never made its owner)
            roles.push(Role { name: "factory-chain-admin", addr: base.factory_admin.to_string(), via_proxy: false });
        }
        if transferred {
            roles.push(Role { name: "former-owner", addr: original_owner.clone(), via_proxy: false });
            for f in &former {
                roles.push(Role { name: "former-owner", addr: f.clone(), via_proxy: false });
            }
        }
        // addresses that merely resemble the owner's (a comparison by prefix or by length would confuse them)
        roles.push(Role { name: "owner-lookalike", addr: format!("{}x", current_owner), via_proxy: false });
        if current_owner.len() > 3 {
            roles.push(Role { name: "owner-lookalike", addr: current_owner[..current_owner.len() - 1].to_string(), via_proxy: false });
        }
        for p in &base.pairs {
            roles.push(Role { name: "a-pair", addr: p.addr.to_string(), via_proxy: false });
            roles.push(Role { name: "an-lp-token", addr: p.lp.to_string(), via_proxy: false });
        }
        for tk in &base.tokens {
            roles.push(Role { name: "an-asset-token", addr: tk.addr.to_string(), via_proxy: false });
        }
        for m in 0..MESSAGES.len() {
            let pair = s.idx(base.pairs.len());
            let cell = match build_cell(&base, &mut s, m, &current_owner, pair) {
                Some(c) => c,
                None => continue,
            };
            // the authorised twin
            let twin_ok = match &cell.twin {
                Some(tw) => {
                    let mut f = base.fork();
                    let rec = send(&mut f, tw, false, &cell.contract, &cell.msg);
                    if !rec.outcome.is_ok() && transferred && m <= 3 {
                        // ownership follows the transfer: the new owner must pass what the old owner passed
                        let mut f0 = w.fork();
                        let rec0 = send(&mut f0, &original_owner, false, &cell.contract, &cell.msg);
                        if rec0.outcome.is_ok() {
                            verdict = Verdict::Fail(format!(
                                "{} by the NEW owner {} fails ({}) although the same message by the original owner succeeded before the transfer", MESSAGES[m], current_owner, rec.outcome.err_text()));
                            break 'states;
                        }
                    }
                    rec.outcome.is_ok()
                }
                None => false,
            };
            if want_desc {
                log.push(json!({"state": if transferred { "after transfer" } else { "before transfer" }, "message": MESSAGES[m], "twin": cell.twin, "twin_succeeded": twin_ok}));
            }
            let no_authority_exists = cell.authorised.is_empty();
            // addresses that merely resemble an AUTHORISED sender of this very cell (extended, shortened): a
            // comparison by prefix or by common length would confuse them. (No re-cased variant: the chain
            // API treats the casings of one address as the same account - cosmwasm's MockApi lower-cases on
            // canonicalisation like bech32 - so an upper-cased sender IS the authorised account.)
            let mut look: Vec<Role> = vec![];
            for a in &cell.authorised {
                let mut vars = vec![format!("{}0", a), format!("{}x", a)];
                if a.len() > 3 {
                    vars.push(a[..a.len() - 1].to_string());
                }
                for v in vars {
                    if v != *a && !look.iter().any(|r: &Role| r.addr == v) {
                        look.push(Role { name: "authorised-lookalike", addr: v, via_proxy: false });
                    }
                }
            }
            for r in roles.iter().chain(look.iter()) {
                let effective = if r.via_proxy { base.proxy.to_string() } else { r.addr.clone() };
                if cell.authorised.contains(&effective) {
                    classes.push(label(m, r.name, "authorised"));
                    continue;
                }
                let mut f = base.fork();
                let rec = send(&mut f, &r.addr, r.via_proxy, &cell.contract, &cell.msg);
                if !twin_ok && !no_authority_exists && !rec.outcome.is_ok() {
                    // the rejection may have another cause than the caller: not counted as a judged cell,
                    // but an unauthorised SUCCESS below is a violation whatever the twin did
                    classes.push(label(m, r.name, "vacuous (authorised twin failed)"));
                    if !rec.state_unchanged() {
                        verdict = Verdict::Fail(format!("{} sent by {} was rejected but changed chain state", MESSAGES[m], r.name));
                        break 'states;
                    }
                    continue;
                }
                judged += 1;
                *cells_seen.entry((m, r.name)).or_default() += 1;
                classes.push(label(m, r.name, "rejected"));
                if rec.outcome.is_ok() {
                    verdict = Verdict::Fail(format!(
                        "{} sent by {} ({}{}) succeeded in the state {} ownership transfer although only {:?} may send it", MESSAGES[m], r.name, r.addr, if r.via_proxy { " through the forwarding contract" } else { "" },
                        if transferred { "after" } else { "before" }, cell.authorised));
                    break 'states;
                }
                if !rec.state_unchanged() {
                    verdict = Verdict::Fail(format!("{} sent by {} was rejected but changed chain state", MESSAGES[m], r.name));
                    break 'states;
                }
            }
            // --- smuggling: the same message as the payload of the contract's public cw20 Receive entry,
            // with the free `sender` field of the envelope set to the authorised address (or the caller).
            // Nobody is authorised to reach a privileged/internal message this way.
            let is_router = cell.contract == base.router.as_str();
            let is_pair = base.pairs.iter().any(|p| p.addr == cell.contract);
            if twin_ok && (is_router || is_pair) {
                let mut carriers: Vec<(&'static str, String)> = vec![("stranger", base.actors[0].to_string()), ("rogue-cw20(impersonated)", base.proxy.to_string())];
                if let Some(tk) = base.tokens.first() {
                    carriers.push(("an-asset-token", tk.addr.to_string()));
                }
                if let Some(p) = base.pairs.first() {
                    carriers.push(("an-lp-token", p.lp.to_string()));
                }
                for (cname, caddr) in carriers {
                    let spoofs: Vec<String> = cell.twin.iter().cloned().chain(std::iter::once(caddr.clone())).collect();
                    for spoof in spoofs {
                        let envelope = Cw20ReceiveMsg { sender: spoof.clone(), amount: Uint128::new(1 + s.below(1000) as u128), msg: cell.msg.clone() };
                        let wrapped = if is_router { to_binary(&RouterExec::Receive(envelope)).unwrap() } else { to_binary(&PairExec::Receive(envelope)).unwrap() };
                        let mut f = base.fork();
                        let rec = send(&mut f, &caddr, false, &cell.contract, &wrapped);
                        judged += 1;
                        classes.push(label(m, cname, "rejected when smuggled through Receive"));
                        if rec.outcome.is_ok() && !rec.state_unchanged() {
                            verdict = Verdict::Fail(format!(
                                "{} took effect as the payload of the contract's cw20 Receive entry, sent by {} ({}) with the envelope's sender field set to {}: only {:?} may send it", MESSAGES[m], cname, caddr, spoof, cell.authorised));
                            break 'states;
                        }
                        if rec.outcome.is_ok() {
                            // an envelope that is accepted without any effect is not an accepted privileged message
                            classes.push("smuggle:accepted-without-effect");
                        }
                        if !rec.state_unchanged() {
                            verdict = Verdict::Fail(format!("{} smuggled through Receive by {} was rejected but changed chain state", MESSAGES[m], cname));
                            break 'states;
                        }
                    }
                }
            }
        }
    }
    classes.sort();
    classes.dedup();
    let desc = if want_desc || matches!(verdict, Verdict::Fail(_)) {
        Some(json!({"world": crate::sys::cfg_summary(&cfg), "cells": log, "judged_cells": judged}))
    } else {
        None
    };
    CaseResult { verdict, nontrivial: judged > 0, key: fnv64(&t.to_bytes()), classes, desc }
}

pub fn suites() -> Vec<Suite> {
    vec![Suite {
        name: "caller_matrix",
        about: "every (message, caller role) cell in generated worlds, before and after an ownership transfer; metamorphic oracle: same message, same state (fork), authorised twin vs role under test",
        head_len: 200,
        op_len: 0,
        max_ops: 0,
        quick_cases: 4_000,
        thorough_cases: 60_000,
        run,
        direct: None,
        must_hit: &["state:before-ownership-transfer", "state:after-ownership-transfer", "state:pair-with-liquidity", "state:pair-holds-donated-lp", "state:after-pair-migration"],
    }]
}

pub const RULE: &str = "case = generated world (1-2 pairs of generated kinds, liquidity seeded, half of the provider's LP tokens donated to the pair so that a forged withdraw hook has something to burn, router funded) x {before, after UpdateConfig{owner: actor3}} x ALL 9 messages (factory UpdateConfig / CreatePair / AddNativeTokenDecimals / MigratePair; pair UpdateNativeTokenDecimals / Receive(WithdrawLiquidity) / Receive(Swap); router ExecuteSwapOperation / AssertMinimumReceive) with generated arguments x ALL caller roles (current owner, former owner(s) - a third of the transferred states move ownership on a second time -, addresses that merely resemble the owner's, and for every cell addresses that merely resemble an authorised sender of that cell (extended by a character, shortened by one), stranger, fresh address, factory, router, every pair, every LP token, every asset token, the rogue cw20 contract both impersonated and through its forwarding entry point, and - in the half of the worlds where the factory's chain-level admin is an account of its own, which migrates the factory in some states - that admin; additionally every pair/router message is smuggled as the payload of the contract's public cw20 Receive entry by a stranger, the rogue contract, an asset token and an LP token, with the envelope's free sender field set to the authorised address or to the caller); a cell is judged when the authorised twin succeeded on a fork of the same state (or when no caller can be authorised at all): the role under test must fail and leave the chain byte-identical; non-trivial = a case with at least one judged cell; distinct = hash of the tape; the class histogram lists every cell with its count";
pub const ASSUMPTIONS: &[&str] = &[
    "cw-multi-test lets any address be the sender of a message: contract roles are exercised by impersonation, the rogue contract additionally through its own Forward entry point",
    "for pair.Receive(Swap) every cw20 asset of the pair counts as authorised by the statement; whether the hook's named asset matches the sender is C02's subject",
];
