//! C05 — Provision mints a fair share and pulls exactly the declared deposits (DESIGN.md C05).

use crate::engine::*;
use crate::hist::*;
use crate::nat::{n, Nat};
use crate::sys::*;
use crate::world::*;
use haloswap::asset::AssetInfo;

#[derive(Default)]
pub struct C05Oracle {
    nontrivial: u64,
}

impl StepOracle for C05Oracle {
    fn on_step(&mut self, cx: &mut StepCtx, classes: &mut Vec<&'static str>) -> Verdict {
        let w = &*cx.world;
        let (pair, assets, receiver) = match cx.intent {
            Intent::Provide { pair, assets, receiver } => (*pair, assets, receiver),
            _ => return Verdict::Pass,
        };
        let pr = &w.pairs[pair];
        let caller = cx.rec.step.sender.clone();
        let (r0, r1, s) = pool_in(w, &cx.rec.before, pair);
        let rs = [r0, r1];
        let d: Vec<Option<u128>> = (0..2).map(|i| assets.iter().find(|a| a.info == pr.infos[i]).map(|a| a.amount.u128())).collect();
        let whitelisted = pr.cfg.whitelist.iter().any(|i| actor_addr(*i) == caller);
        let meets_min = matches!((d[0], d[1]), (Some(a), Some(b)) if a >= pr.cfg.minimum[0] && b >= pr.cfg.minimum[1]);
        if s == 0 {
            classes.push(if whitelisted { "first:whitelisted" } else { "first:not-whitelisted" });
            classes.push(if meets_min { "first:meets-minimum" } else { "first:below-minimum" });
        }
        if !cx.rec.outcome.is_ok() {
            classes.push("p:rejected");
            if !cx.rec.state_unchanged() {
                return Verdict::Fail(format!("step {}: rejected provision changed chain state", cx.index));
            }
            return Verdict::Pass;
        }
        classes.push(if s == 0 { "p:first-provision" } else { "p:minted" });
        let (d0, d1) = match (d[0], d[1]) {
            (Some(a), Some(b)) => (a, b),
            _ => return Verdict::Fail(format!("step {}: provision succeeded although the message does not name both assets of the pair", cx.index)),
        };
        let ds = [d0, d1];
        let lp = AssetInfo::Token { contract_addr: pr.lp.to_string() };
        let sc = supply_changes(cx.rec);
        if sc.len() != 1 || sc[0].0 != pr.lp.as_str() || sc[0].1 <= 0 {
            return Verdict::Fail(format!("step {}: successful provision changed supplies {:?}; expected one positive change on the pair's LP token", cx.index, sc));
        }
        let m = sc[0].1 as u128;
        let mut expected = DeltaMap::new();
        for i in 0..2 {
            add_delta(&mut expected, &caller, &pr.infos[i], -(ds[i] as i128));
            add_delta(&mut expected, pr.addr.as_str(), &pr.infos[i], ds[i] as i128);
        }
        // coins attached that are not pair assets are the caller's explicit donation
        for c in &cx.rec.step.funds {
            let info = AssetInfo::NativeToken { denom: c.denom.clone() };
            if !pr.infos.contains(&info) {
                add_delta(&mut expected, &caller, &info, -(c.amount.u128() as i128));
                add_delta(&mut expected, pr.addr.as_str(), &info, c.amount.u128() as i128);
            }
        }
        if s > 0 {
            add_delta(&mut expected, receiver, &lp, m as i128);
            // m*r_i <= d_i*S for both i; (m+1)*r_i > d_i*S for some i; m >= 1
            let mut tight = false;
            for i in 0..2 {
                if n(m).mul(&n(rs[i])) > n(ds[i]).mul(&n(s)) {
                    return Verdict::Fail(format!(
                        "step {}: provision of ({}, {}) into reserves ({}, {}) with supply {} minted {} > d{}*S/r{}", cx.index, d0, d1, r0, r1, s, m, i, i));
                }
                if n(m).add(&Nat::one()).mul(&n(rs[i])) > n(ds[i]).mul(&n(s)) {
                    tight = true;
                }
            }
            if !tight {
                return Verdict::Fail(format!(
                    "step {}: provision of ({}, {}) into reserves ({}, {}) with supply {} minted {}: at least one unit less than min_i(d_i*S/r_i)", cx.index, d0, d1, r0, r1, s, m));
            }
            if n(d0).mul(&n(r1)) != n(d1).mul(&n(r0)) {
                classes.push("p:unbalanced");
                self.nontrivial += 1;
            }
        } else {
            if !whitelisted {
                return Verdict::Fail(format!("step {}: first provision by {} succeeded although it is not in the whitelist", cx.index, caller));
            }
            if !meets_min {
                return Verdict::Fail(format!("step {}: first provision of ({}, {}) succeeded below the configured minimums {:?}", cx.index, d0, d1, pr.cfg.minimum));
            }
            let prod = n(d0).mul(&n(d1));
            let m1 = n(m).add(&Nat::one());
            if n(m).mul(&n(m)) > prod || m1.mul(&m1) <= prod {
                return Verdict::Fail(format!("step {}: first provision of ({}, {}) made the supply {} != floor(sqrt(d0*d1))", cx.index, d0, d1, m));
            }
            // exactly one unit goes to an address that can never spend it: the statement does not say
            // which; accept any single address that is not a user account (actors, bystanders, fresh
            // addresses, owner), i.e. a contract of the system none of whose entry points transfers LP
            let users: Vec<String> = w.holders().iter().map(|h| h.to_string()).chain((0..3).map(|i| fresh_addr(i).to_string())).chain(std::iter::once(w.owner.to_string())).collect();
            let lp_key = asset_key(&lp);
            let sinks: Vec<(String, i128)> = actual_deltas(cx.rec).into_iter().filter(|((acc, a), _)| *a == lp_key && acc != receiver && *acc != caller).map(|((acc, _), d)| (acc, d)).collect();
            // (the chosen receiver may itself be such an address - the LP token contract, say: then the unit and
            // the share arrive at the same place and there is no second address to look for)
            let got_at_receiver = actual_deltas(cx.rec).get(&(receiver.clone(), lp_key.clone())).copied().unwrap_or(0);
            if sinks.is_empty() && !users.contains(receiver) && *receiver != caller && got_at_receiver == m as i128 {
                classes.push("p:first-provision-receiver-is-the-unspendable-address");
                add_delta(&mut expected, receiver, &lp, m as i128);
                self.nontrivial += 1;
            } else if sinks.len() != 1 || sinks[0].1 != 1 || users.contains(&sinks[0].0) {
                return Verdict::Fail(format!(
                    "step {}: first provision: besides the receiver, LP balances changed as {:?}; exactly one unit must go to one address that can never spend it", cx.index, sinks));
            } else {
                add_delta(&mut expected, &sinks[0].0, &lp, 1);
                add_delta(&mut expected, receiver, &lp, m as i128 - 1);
                self.nontrivial += 1;
            }
        }
        let actual = actual_deltas(cx.rec);
        if let Some(dd) = diff_deltas(&expected, &actual) {
            return Verdict::Fail(format!("step {}: provision of ({}, {}) by {} (receiver {}): {}", cx.index, d0, d1, caller, receiver, dd));
        }
        if *receiver != caller {
            classes.push("p:third-party-receiver");
        }
        Verdict::Pass
    }
    fn nontrivial(&self) -> bool {
        self.nontrivial > 0
    }
}

fn run(t: &Tape, want_desc: bool) -> CaseResult {
    let mut o = C05Oracle::default();
    // seed liquidity on only some pairs so that first provisions (incl. after donations) are generated ops
    let h = run_history(t, &LIQUIDITY, 8, &mut o, want_desc);
    hist_case(t, h)
}
fn run_mixed(t: &Tape, want_desc: bool) -> CaseResult {
    let mut o = C05Oracle::default();
    let h = run_history(t, &MIXED, 12, &mut o, want_desc);
    hist_case(t, h)
}

pub fn suites() -> Vec<Suite> {
    vec![
        crate::props::funcs::suite_lp_share(),
        Suite {
            name: "provisions",
            about: "liquidity-heavy histories with first provisions left to the generator (whitelist/minimum configurations, donations before the first provision)",
            head_len: HEAD_LEN,
            op_len: OP_LEN,
            max_ops: 30,
            quick_cases: 20_000,
            thorough_cases: 400_000,
            run,
            direct: Some(direct_with::<C05Oracle>),
            must_hit: &["p:first-provision", "p:minted", "p:rejected", "p:unbalanced", "p:third-party-receiver", "first:not-whitelisted", "first:below-minimum", "first:whitelisted", "first:meets-minimum",
                "pair:native/native", "pair:native/cw20", "pair:cw20/cw20"],
        },
        Suite {
            name: "provisions_mixed",
            about: "the same judgement inside mixed histories (swaps, routes, adversarial provide shapes and funds games)",
            head_len: HEAD_LEN,
            op_len: OP_LEN,
            max_ops: 30,
            quick_cases: 10_000,
            thorough_cases: 200_000,
            run: run_mixed,
            direct: Some(direct_with::<C05Oracle>),
            must_hit: &["p:minted", "p:rejected", "p:unbalanced"],
        },
    ]
}

pub const RULE: &str = "case = world + history; provisions are balanced against the live reserves (then perturbed by 0..2 units) or independent, in either asset order, with receiver none/actor/bystander/fresh, slippage none/in [0,1]/above 1, adversarial shapes (wrong / duplicate asset, zero amount) and funds games; every provision attempt is judged (success on a non-empty pair: m >= 1, m*r_i <= d_i*S for both i and (m+1)*r_i > d_i*S for some i on PRE-transaction reserves, exact deposits caller->pair, receiver +m LP, nothing else moves; success on an empty pair: caller whitelisted, both minimums met, supply = isqrt(d0*d1), exactly 1 unit at the LP token's own address, receiver supply-1; failure: chain state byte-identical); non-trivial = a successful unbalanced provision or a first provision; distinct = hash of the tape";
pub const ASSUMPTIONS: &[&str] = &["cw-multi-test chain model; coins attached that are not pair assets are the caller's donation to the pair"];
