//! Property registry: one module per property, each exposing its suites (generator + oracle),
//! the non-triviality rule and the assumptions, used by every driver (proptest, replay, libFuzzer).

use crate::engine::Suite;

pub mod c08;

pub struct Property {
    pub id: &'static str,
    pub rule: &'static str,
    pub assumptions: &'static [&'static str],
    pub suites: Vec<Suite>,
}

pub fn all() -> Vec<Property> {
    vec![
        Property { id: "C08", rule: c08::RULE, assumptions: c08::ASSUMPTIONS, suites: c08::suites() },
    ]
}

pub fn get(id: &str) -> Option<Property> {
    all().into_iter().find(|p| p.id == id)
}
