//! Property registry: one module per property, each exposing its suites (generator + oracle),
//! the non-triviality rule and the assumptions, used by every driver (proptest, replay, libFuzzer).

use crate::engine::Suite;

pub mod c01;
pub mod c02;
pub mod c03;
pub mod c04;
pub mod c05;
pub mod c06;
pub mod c07;
pub mod c08;
pub mod c09;
pub mod c10;
pub mod c11;
pub mod c12;
pub mod c13;
pub mod c14;
pub mod c15;
pub mod c16;
pub mod c17;
pub mod c18;
pub mod c19;
pub mod c20;
pub mod funcs;
pub mod guards;
pub mod quotes;
pub mod registry;
pub mod swapf;

pub struct Property {
    pub id: &'static str,
    pub rule: &'static str,
    pub assumptions: &'static [&'static str],
    pub suites: Vec<Suite>,
}

pub fn all() -> Vec<Property> {
    vec![
        Property { id: "C01", rule: c01::RULE, assumptions: c01::ASSUMPTIONS, suites: c01::suites() },
        Property { id: "C02", rule: c02::RULE, assumptions: c02::ASSUMPTIONS, suites: c02::suites() },
        Property { id: "C03", rule: c03::RULE, assumptions: c03::ASSUMPTIONS, suites: c03::suites() },
        Property { id: "C04", rule: c04::RULE, assumptions: c04::ASSUMPTIONS, suites: c04::suites() },
        Property { id: "C05", rule: c05::RULE, assumptions: c05::ASSUMPTIONS, suites: c05::suites() },
        Property { id: "C06", rule: c06::RULE, assumptions: c06::ASSUMPTIONS, suites: c06::suites() },
        Property { id: "C07", rule: c07::RULE, assumptions: c07::ASSUMPTIONS, suites: c07::suites() },
        Property { id: "C08", rule: c08::RULE, assumptions: c08::ASSUMPTIONS, suites: c08::suites() },
        Property { id: "C09", rule: c09::RULE, assumptions: c09::ASSUMPTIONS, suites: c09::suites() },
        Property { id: "C10", rule: c10::RULE, assumptions: c10::ASSUMPTIONS, suites: c10::suites() },
        Property { id: "C11", rule: c11::RULE, assumptions: c11::ASSUMPTIONS, suites: c11::suites() },
        Property { id: "C12", rule: c12::RULE, assumptions: c12::ASSUMPTIONS, suites: c12::suites() },
        Property { id: "C13", rule: c13::RULE, assumptions: c13::ASSUMPTIONS, suites: c13::suites() },
        Property { id: "C14", rule: c14::RULE, assumptions: c14::ASSUMPTIONS, suites: c14::suites() },
        Property { id: "C15", rule: c15::RULE, assumptions: c15::ASSUMPTIONS, suites: c15::suites() },
        Property { id: "C16", rule: c16::RULE, assumptions: c16::ASSUMPTIONS, suites: c16::suites() },
        Property { id: "C17", rule: c17::RULE, assumptions: c17::ASSUMPTIONS, suites: c17::suites() },
        Property { id: "C18", rule: c18::RULE, assumptions: c18::ASSUMPTIONS, suites: c18::suites() },
        Property { id: "C19", rule: c19::RULE, assumptions: c19::ASSUMPTIONS, suites: c19::suites() },
        Property { id: "C20", rule: c20::RULE, assumptions: c20::ASSUMPTIONS, suites: c20::suites() },
    ]
}

/// function-level suites need a shim in src/direct.rs; a suite whose shim's feature is off (because
/// the helper's signature changed and the harness was rebuilt without it) is not registered
pub fn suite_feature(name: &str) -> Option<&'static str> {
    match name {
        "swap_formula" => Some("d-swap"),
        "reverse_formula" => Some("d-offer"),
        "lp_share_formula" => Some("d-lp"),
        "max_spread_guard" => Some("d-spread"),
        "slippage_guard" => Some("d-slip"),
        "funds_comparison" => Some("d-funds"),
        "registry_key" => Some("d-key"),
        "route_shape" => Some("d-shape"),
        _ => None,
    }
}

pub fn get(id: &str) -> Option<Property> {
    let off = crate::direct::disabled();
    all().into_iter().find(|p| p.id == id).map(|mut p| {
        p.suites.retain(|s| suite_feature(s.name).map(|f| !off.contains(&f)).unwrap_or(true));
        p
    })
}
