//! Additional function-level suites over public helpers, each with the full input domain:
//! LP share computation (C05), reverse pricing formula (C12 b), native-funds comparison (C09),
//! registry key (C16), route shape validation (C13).

use crate::engine::*;
use crate::gen::*;
use crate::nat::{n, Nat};
use crate::props::quotes::judge_reverse;
use cosmwasm_std::{Addr, CanonicalAddr, Coin, MessageInfo, Uint128};
use haloswap::asset::{Asset, AssetInfo, AssetInfoRaw, CreatePairRequirements, PairInfoRaw};
use haloswap::router::SwapOperation;
use serde_json::json;
use std::collections::BTreeSet;

// ------------------------------------------------------------------------------------------------
// C05: calculate_lp_token_amount_to_user

fn run_lp_share(t: &Tape, want_desc: bool) -> CaseResult {
    let mut s = Src::new(&t.head);
    let first = s.chance(1, 3);
    let sender = ["alice", "bob", "carol"][s.idx(3)];
    let whitelist: Vec<Addr> = match s.below(4) {
        0 => vec![],
        1 => vec![Addr::unchecked("alice")],
        2 => vec![Addr::unchecked("alice"), Addr::unchecked("bob")],
        _ => vec![Addr::unchecked("carol")],
    };
    let mins = [if s.bool() { 0 } else { gen128(&mut s) >> s.below(100) }, if s.bool() { 0 } else { gen128(&mut s) >> s.below(100) }];
    let d = [gen128(&mut s) >> s.below(64), gen128(&mut s) >> s.below(64)];
    let r = [gen128(&mut s).max(if s.chance(1, 30) { 0 } else { 1 }), gen128(&mut s).max(1)];
    let supply = if first { 0 } else { gen128(&mut s).max(1) };
    // near-boundary deposits: d_i*S/r_i just around an integer
    let d = if !first && s.chance(1, 3) && r[0] > 0 {
        let k = s.bits_u128(60).max(1);
        let d0 = n(k).mul(&n(r[0])).div_ceil(&n(supply)).to_u128().unwrap_or(d[0]);
        [d0.saturating_add(1).saturating_sub(s.below(3) as u128), d[1]]
    } else {
        d
    };
    let pair = PairInfoRaw {
        asset_infos: [AssetInfoRaw::NativeToken { denom: "a".into() }, AssetInfoRaw::NativeToken { denom: "b".into() }],
        contract_addr: CanonicalAddr::from(vec![]),
        liquidity_token: CanonicalAddr::from(vec![]),
        asset_decimals: [6, 6],
        requirements: CreatePairRequirements { whitelist: whitelist.clone(), first_asset_minimum: Uint128::new(mins[0]), second_asset_minimum: Uint128::new(mins[1]) },
        commission_rate: to_dec(&n(3_000_000_000_000_000)),
    };
    let info = MessageInfo { sender: Addr::unchecked(sender), funds: vec![] };
    let pools = [
        Asset { info: AssetInfo::NativeToken { denom: "a".into() }, amount: Uint128::new(r[0]) },
        Asset { info: AssetInfo::NativeToken { denom: "b".into() }, amount: Uint128::new(r[1]) },
    ];
    let got = guarded(|| crate::direct::lp_share(&info, &pair, supply, d, pools));
    let mut classes = vec![if first { "lp:first" } else { "lp:subsequent" }];
    let mut verdict = Verdict::Pass;
    let mut nontrivial = false;
    match &got {
        Err(_) => classes.push("lp:abort"),
        Ok(Err(_)) => {
            classes.push("lp:error");
        }
        Ok(Ok(m)) => {
            let m = *m;
            classes.push("lp:share");
            if first {
                let wl = whitelist.iter().any(|a| a.as_str() == sender);
                let prod = n(d[0]).mul(&n(d[1]));
                let m1 = n(m).add(&Nat::one());
                if !wl {
                    verdict = Verdict::Fail(format!("first share granted to {} who is not in the whitelist {:?}", sender, whitelist));
                } else if d[0] < mins[0] || d[1] < mins[1] {
                    verdict = Verdict::Fail(format!("first share granted for deposits {:?} below the minimums {:?}", d, mins));
                } else if n(m).mul(&n(m)) > prod || m1.mul(&m1) <= prod {
                    verdict = Verdict::Fail(format!("first share {} != floor(sqrt({}*{}))", m, d[0], d[1]));
                }
                nontrivial = true;
            } else {
                // m*r_i <= d_i*S for both i and (m+1)*r_i > d_i*S for some i
                let mut tight = false;
                for i in 0..2 {
                    if n(m).mul(&n(r[i])) > n(d[i]).mul(&n(supply)) {
                        verdict = Verdict::Fail(format!("share {} > d{}*S/r{} (d {:?}, r {:?}, S {})", m, i, i, d, r, supply));
                    }
                    if n(m).add(&Nat::one()).mul(&n(r[i])) > n(d[i]).mul(&n(supply)) {
                        tight = true;
                    }
                }
                if matches!(verdict, Verdict::Pass) && !tight {
                    verdict = Verdict::Fail(format!("share {} is at least one unit below min_i(d_i*S/r_i) (d {:?}, r {:?}, S {})", m, d, r, supply));
                }
                nontrivial = m >= 1 && n(d[0]).mul(&n(r[1])) != n(d[1]).mul(&n(r[0]));
            }
        }
    }
    // a first provision that violates the gate must not yield a share (the converse the statement makes)
    let desc = if want_desc || !matches!(verdict, Verdict::Pass) {
        Some(json!({"first": first, "sender": sender, "whitelist": whitelist, "minimums": [mins[0].to_string(), mins[1].to_string()], "deposits": [d[0].to_string(), d[1].to_string()],
            "reserves": [r[0].to_string(), r[1].to_string()], "supply": supply.to_string(), "result": format!("{:?}", got)}))
    } else {
        None
    };
    CaseResult { verdict, nontrivial, key: hash_words(&[d[0], d[1], r[0], r[1], supply, mins[0], mins[1], first as u128]), classes, desc }
}

pub fn suite_lp_share() -> Suite {
    Suite {
        name: "lp_share_formula",
        about: "calculate_lp_token_amount_to_user over the full 128-bit domain: min-ratio share bounds on non-empty pools; whitelist, minimums and integer square root on empty ones",
        head_len: 48,
        op_len: 0,
        max_ops: 0,
        quick_cases: 3_000_000,
        thorough_cases: 60_000_000,
        run: run_lp_share,
        direct: None,
        must_hit: &["lp:first", "lp:subsequent", "lp:share", "lp:error", "lp:abort"],
    }
}

// ------------------------------------------------------------------------------------------------
// C12 (b): compute_offer_amount

fn run_reverse_formula(t: &Tape, want_desc: bool) -> CaseResult {
    let mut s = Src::new(&t.head);
    let x = gen128(&mut s) >> s.below(40);
    let y = (gen128(&mut s) >> s.below(40)).max(1);
    let c = gen_rate_atomics(&mut s);
    let deliverable = n(y).mul(&n(E18 - c.min(E18))).div(&Nat::e18()).to_u128().unwrap_or(0);
    let ask = match s.weighted(&[5, 2, 2, 1, 1]) {
        0 => s.upto_u128(y),
        1 => deliverable.saturating_sub(s.below(4) as u128),
        2 => deliverable.saturating_add(s.below(4) as u128),
        3 => 1,
        _ => gen128(&mut s),
    };
    let got = guarded(|| crate::direct::compute_offer_amount(x, y, ask, to_dec(&n(c))));
    let mut classes = vec![];
    let mut verdict = Verdict::Pass;
    let mut nontrivial = false;
    match &got {
        Err(_) => classes.push("b:abort"),
        Ok((offer, _, _)) => match judge_reverse(x, y, ask, c, *offer) {
            Ok(cl) => {
                classes.push(cl);
                nontrivial = cl == "b:within-bounds" && ask >= 1 && c > 0;
            }
            Err(m) => verdict = Verdict::Fail(m),
        },
    }
    let desc = if want_desc || !matches!(verdict, Verdict::Pass) {
        Some(json!({"offer_reserve": x.to_string(), "ask_reserve": y.to_string(), "ask": ask.to_string(), "commission_atomics": c.to_string(), "result": format!("{:?}", got)}))
    } else {
        None
    };
    CaseResult { verdict, nontrivial, key: hash_words(&[x, y, ask, c]), classes, desc }
}

pub fn suite_reverse_formula() -> Suite {
    Suite {
        name: "reverse_formula",
        about: "(b) compute_offer_amount called directly on 128-bit reserves, asks around the deliverable maximum y(1-c), all commission rates; judged against the documented closed form and its derived rounding bound",
        head_len: 40,
        op_len: 0,
        max_ops: 0,
        quick_cases: 3_000_000,
        thorough_cases: 60_000_000,
        run: run_reverse_formula,
        direct: None,
        must_hit: &["b:within-bounds", "b:skipped-D<=0", "b:abort"],
    }
}

// ------------------------------------------------------------------------------------------------
// C09: Asset::assert_sent_native_token_balance

const FDENOMS: [&str; 7] = ["ua", "uab", "uabc", "ub", "a", "ibc/x1", "UA"];

fn run_funds_check(t: &Tape, want_desc: bool) -> CaseResult {
    let mut s = Src::new(&t.head);
    let denom = FDENOMS[s.idx(FDENOMS.len())];
    let declared = match s.weighted(&[4, 2, 1]) {
        0 => gen128(&mut s) >> s.below(100),
        1 => s.below(4) as u128,
        _ => 0,
    };
    // a valid coin set: distinct denoms, positive amounts, in a generated order
    let ncoins = s.weighted(&[2, 4, 3, 2]);
    let mut used: BTreeSet<&str> = BTreeSet::new();
    let mut funds: Vec<Coin> = vec![];
    for _ in 0..ncoins {
        let d = if s.chance(1, 2) { denom } else { FDENOMS[s.idx(FDENOMS.len())] };
        if !used.insert(d) {
            continue;
        }
        let amt = match s.weighted(&[4, 2, 2, 1]) {
            0 => declared,
            1 => declared.saturating_add(1 + s.below(3) as u128),
            2 => declared.saturating_sub(1 + s.below(3) as u128),
            _ => gen128(&mut s) >> s.below(100),
        };
        if amt > 0 {
            funds.push(Coin { denom: d.to_string(), amount: Uint128::new(amt) });
        }
    }
    let native = s.chance(7, 8);
    let asset = if native { Asset { info: AssetInfo::NativeToken { denom: denom.to_string() }, amount: Uint128::new(declared) } } else { Asset { info: AssetInfo::Token { contract_addr: "token".into() }, amount: Uint128::new(declared) } };
    let info = MessageInfo { sender: Addr::unchecked("sender"), funds: funds.clone() };
    let got = guarded(|| crate::direct::funds_check(&asset, &info));
    let attached = funds.iter().find(|c| c.denom == denom).map(|c| c.amount.u128()).unwrap_or(0);
    let expect_ok = !native || attached == declared;
    let mut classes = vec![];
    classes.push(if !native { "f:cw20-asset" } else if attached == declared { if declared == 0 { "f:zero+absent" } else { "f:equal" } } else if funds.iter().all(|c| c.denom != denom) { "f:absent" } else if attached < declared { "f:less" } else { "f:more" });
    if funds.iter().any(|c| c.denom != denom && c.amount.u128() == declared && declared > 0) {
        classes.push("f:same-amount-under-another-denom");
    }
    if funds.iter().any(|c| c.denom != denom && (c.denom.starts_with(denom) || denom.starts_with(c.denom.as_str()))) {
        classes.push("f:prefix-related-denom-attached");
    }
    let verdict = match got {
        Ok(ok) if ok == expect_ok => Verdict::Pass,
        Ok(ok) => {
            if ok {
                Verdict::Fail(format!("asset {} accepted with funds {:?}: {} of that denom attached", asset, funds, attached))
            } else {
                // the statement is an only-if: a spurious rejection is not a violation; observed
                classes.push("f:rejected-although-equal");
                Verdict::Pass
            }
        }
        Err(e) => Verdict::Fail(format!("assert_sent_native_token_balance aborted: {}", e)),
    };
    let desc = if want_desc || !matches!(verdict, Verdict::Pass) { Some(json!({"asset": asset.to_string(), "funds": funds.iter().map(|c| c.to_string()).collect::<Vec<_>>(), "expected_ok": expect_ok})) } else { None };
    let nontrivial = native && (attached != declared || declared > 0);
    CaseResult { verdict, nontrivial, key: fnv64(format!("{}|{:?}", asset, funds).as_bytes()), classes, desc }
}

pub fn suite_funds_check() -> Suite {
    Suite {
        name: "funds_comparison",
        about: "Asset::assert_sent_native_token_balance on generated valid coin sets (0-3 coins, prefix-related and case-variant denoms, the declared amount attached under another denom, generated order): accepted only if the coin of exactly that denom carries exactly the declared amount (absent = 0)",
        head_len: 48,
        op_len: 0,
        max_ops: 0,
        quick_cases: 2_000_000,
        thorough_cases: 40_000_000,
        run: run_funds_check,
        direct: None,
        must_hit: &["f:equal", "f:less", "f:more", "f:absent", "f:zero+absent", "f:cw20-asset", "f:same-amount-under-another-denom", "f:prefix-related-denom-attached"],
    }
}

// ------------------------------------------------------------------------------------------------
// C16: pair_key is injective on unordered asset sets and order-insensitive

fn gen_raw_asset(s: &mut Src) -> AssetInfoRaw {
    const ALPHA: [&str; 12] = ["abc", "defg", "abcd", "efg", "ab", "cdefg", "abcde", "fg", "a", "b", "abcdefg", ""];
    match s.weighted(&[6, 2, 2]) {
        0 => AssetInfoRaw::NativeToken { denom: ALPHA[s.idx(ALPHA.len())].to_string() },
        1 => {
            // a short random denom over a 3-letter alphabet
            let len = s.range(1, 6) as usize;
            AssetInfoRaw::NativeToken { denom: (0..len).map(|_| ['a', 'b', 'c'][s.idx(3)]).collect() }
        }
        _ => {
            // a fixed-length canonical address (as on chain: 20 or 32 bytes; MockApi: 54)
            let len = [20usize, 32, 54][s.idx(3)];
            let fill = s.below(4) as u8;
            let mut v = vec![b'a' + fill; len];
            v[0] = b'a' + s.below(3) as u8;
            AssetInfoRaw::Token { contract_addr: CanonicalAddr::from(v) }
        }
    }
}

fn raw_id(a: &AssetInfoRaw) -> (u8, Vec<u8>) {
    match a {
        AssetInfoRaw::NativeToken { denom } => (0, denom.as_bytes().to_vec()),
        AssetInfoRaw::Token { contract_addr } => (1, contract_addr.as_slice().to_vec()),
    }
}

fn run_pair_key(t: &Tape, want_desc: bool) -> CaseResult {
    let mut s = Src::new(&t.head);
    let a = [gen_raw_asset(&mut s), gen_raw_asset(&mut s)];
    let b = if s.chance(1, 4) { [a[1].clone(), a[0].clone()] } else { [gen_raw_asset(&mut s), gen_raw_asset(&mut s)] };
    let ka = guarded(|| crate::direct::pair_key(&a));
    let kb = guarded(|| crate::direct::pair_key(&b));
    // identity of an unordered set: the multiset of raw byte identifiers (a native denom and a
    // canonical address with the same bytes cannot both exist: lengths and alphabets differ)
    let set = |x: &[AssetInfoRaw; 2]| {
        let mut v = vec![raw_id(&x[0]).1, raw_id(&x[1]).1];
        v.sort();
        v
    };
    let same_set = set(&a) == set(&b);
    let mut classes = vec![if same_set { "k:same-set" } else { "k:different-sets" }];
    let concat = |x: &[AssetInfoRaw; 2]| {
        let v = set(x);
        [v[0].clone(), v[1].clone()].concat()
    };
    if !same_set && concat(&a) == concat(&b) {
        classes.push("k:different-sets-same-concatenation");
    }
    let verdict = match (&ka, &kb) {
        (Ok(x), Ok(y)) => {
            if same_set && x != y {
                Verdict::Fail(format!("the same unordered set has two registry keys: {:?} vs {:?}", a, b))
            } else if !same_set && x == y {
                Verdict::Fail(format!("two different asset sets share one registry key: {:?} and {:?}", a, b))
            } else {
                Verdict::Pass
            }
        }
        _ => Verdict::Fail("pair_key aborted".into()),
    };
    let desc = if want_desc || !matches!(verdict, Verdict::Pass) { Some(json!({"a": format!("{:?}", a), "b": format!("{:?}", b)})) } else { None };
    CaseResult { verdict, nontrivial: true, key: fnv64(format!("{:?}{:?}", a, b).as_bytes()), classes, desc }
}

pub fn suite_pair_key() -> Suite {
    Suite {
        name: "registry_key",
        about: "halo_factory::state::pair_key on generated pairs of asset sets (prefix-sharing denoms incl. the empty string, fixed-length canonical addresses): equal keys iff equal unordered sets",
        head_len: 40,
        op_len: 0,
        max_ops: 0,
        quick_cases: 2_000_000,
        thorough_cases: 40_000_000,
        run: run_pair_key,
        direct: None,
        must_hit: &["k:same-set", "k:different-sets", "k:different-sets-same-concatenation"],
    }
}

// ------------------------------------------------------------------------------------------------
// C13: assert_operations accepts a route iff it is non-empty... (shape rule on asset identities)

fn run_route_shape(t: &Tape, want_desc: bool) -> CaseResult {
    let mut s = Src::new(&t.head);
    let assets: Vec<AssetInfo> = vec![
        AssetInfo::NativeToken { denom: "ua".into() },
        AssetInfo::NativeToken { denom: "uab".into() },
        AssetInfo::NativeToken { denom: "ub".into() },
        AssetInfo::NativeToken { denom: "UA".into() }, // a different coin than "ua"
        AssetInfo::Token { contract_addr: "contract3".into() },
        AssetInfo::Token { contract_addr: "contract4".into() },
    ];
    let len = s.weighted(&[1, 3, 4, 4, 3, 2, 1]);
    let mut ops = vec![];
    let mut cur = assets[s.idx(assets.len())].clone();
    for _ in 0..len {
        // mostly chains, sometimes a jump (fork / disconnected hop / fan-in)
        let offer = if s.chance(1, 4) { assets[s.idx(assets.len())].clone() } else { cur.clone() };
        let ask = assets[s.idx(assets.len())].clone();
        cur = ask.clone();
        ops.push(SwapOperation::HaloSwap { offer_asset_info: offer, ask_asset_info: ask });
    }
    let got = guarded(|| crate::direct::route_shape_ok(&ops));
    let mut set: BTreeSet<String> = BTreeSet::new();
    for SwapOperation::HaloSwap { offer_asset_info, ask_asset_info } in &ops {
        set.remove(&crate::sys::asset_key(offer_asset_info));
        set.insert(crate::sys::asset_key(ask_asset_info));
    }
    let classes = vec![match set.len() {
        0 => "shape:no-output",
        1 => "shape:single-output",
        _ => "shape:multiple-dangling-outputs",
    }];
    // the statement: routes that leave more than one dangling output asset are rejected (empty routes
    // are rejected by the entry point before this function is reached)
    let verdict = match got {
        Ok(true) if set.len() > 1 => Verdict::Fail(format!("a route with {} dangling output assets passes the shape validation: {:?}", set.len(), ops)),
        Ok(_) => Verdict::Pass,
        Err(e) => Verdict::Fail(format!("assert_operations aborted: {}", e)),
    };
    let desc = if want_desc || !matches!(verdict, Verdict::Pass) { Some(json!({"ops": format!("{:?}", ops), "dangling": set})) } else { None };
    CaseResult { verdict, nontrivial: ops.len() >= 2, key: fnv64(format!("{:?}", ops).as_bytes()), classes, desc }
}

pub fn suite_route_shape() -> Suite {
    Suite {
        name: "route_shape",
        about: "halo_router::assert::assert_operations on generated routes of 0..6 hops (chains, forks, fan-ins, disconnected hops) vs the dangling-output set computed on asset identities",
        head_len: 40,
        op_len: 0,
        max_ops: 0,
        quick_cases: 2_000_000,
        thorough_cases: 40_000_000,
        run: run_route_shape,
        direct: None,
        must_hit: &["shape:single-output", "shape:multiple-dangling-outputs"],
    }
}
