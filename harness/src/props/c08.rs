//! C08 — 256-bit arithmetic is exact or aborts, never silently wrong.
//!
//! Every public operator of `bignumber` is compared with the `Nat` oracle under a three-valued
//! expectation (MustAbort / MayAbort / MustReturn), DESIGN.md C08.

use crate::engine::*;
use crate::gen::*;
use crate::nat::Nat;
use bignumber::{Decimal256, Uint256};
use serde_json::{json, Value};
use std::cmp::Ordering;

#[derive(Debug, Clone, PartialEq)]
enum Expect {
    MustAbort,
    /// the operand product exceeds 256 bits but the result fits: abort allowed, else exact value
    MayAbort(Nat),
    MustReturn(Nat),
    /// boolean / ordering results
    Bool(bool),
    Ord(Ordering),
}

#[derive(Debug, Clone, PartialEq)]
enum Got {
    Abort,
    Val(Nat),
    Bool(bool),
    Ord(Ordering),
}

pub const OPS: [&str; 30] = [
    "u.add", "u.add_assign", "u.sub", "u.mul_u", "u.mul_d", "d.mul_u", "u.div_d", "u.multiply_ratio",
    "u.eq", "u.lt", "u.cmp", "u.is_zero",
    "d.add", "d.add_assign", "d.sub", "d.mul", "d.div", "d.from_ratio", "d.from_uint256", "d.percent",
    "d.permille", "d.eq", "d.lt", "d.cmp", "d.is_zero", "d.one_zero", "u.zero_one", "u.from_u128",
    "u.from_u64", "u.mul_ratio_e18",
];

fn fit(n: Nat) -> Expect {
    if n.fits256() { Expect::MustReturn(n) } else { Expect::MustAbort }
}
/// result = floor(p / d) where p is the operand product
fn prod_div(p: Nat, d: &Nat) -> Expect {
    if d.is_zero() {
        return Expect::MustAbort;
    }
    let r = p.div(d);
    if !r.fits256() {
        Expect::MustAbort
    } else if !p.fits256() {
        Expect::MayAbort(r)
    } else {
        Expect::MustReturn(r)
    }
}

fn eval(op: usize, a: &Nat, b: &Nat, c: &Nat) -> (Expect, Result<Got, String>, bool) {
    // returns (expectation, observed, remainder_nonzero)
    let e18 = Nat::e18();
    let ua = to_uint(a);
    let ub = to_uint(b);
    let da = to_dec(a);
    let db = to_dec(b);
    let val_u = |r: Result<Uint256, String>| r.map(|v| Got::Val(from_u256(&v.0)));
    let val_d = |r: Result<Decimal256, String>| r.map(|v| Got::Val(from_u256(&v.0)));
    let mut rem = false;
    let mut note_rem = |p: &Nat, d: &Nat| {
        if !d.is_zero() {
            rem = !p.rem(d).is_zero();
        }
    };
    let (exp, got): (Expect, Result<Got, String>) = match op {
        0 => (fit(a.add(b)), val_u(guarded(|| ua + ub))),
        1 => (fit(a.add(b)), val_u(guarded(|| { let mut x = ua; x += ub; x }))),
        2 => (a.checked_sub(b).map(Expect::MustReturn).unwrap_or(Expect::MustAbort), val_u(guarded(|| ua - ub))),
        3 => (fit(a.mul(b)), val_u(guarded(|| ua * ub))),
        4 | 5 => {
            let p = a.mul(b);
            note_rem(&p, &e18);
            let e = prod_div(p, &e18);
            let g = if op == 4 { val_u(guarded(|| ua * db)) } else { val_u(guarded(|| db * ua)) };
            (e, g)
        }
        6 => {
            let p = a.mul(&e18);
            note_rem(&p, b);
            (prod_div(p, b), val_u(guarded(|| ua / db)))
        }
        7 => {
            let p = a.mul(b);
            note_rem(&p, c);
            (prod_div(p, c), val_u(guarded(|| ua.multiply_ratio(to_u256(b), to_u256(c)))))
        }
        8 => (Expect::Bool(a == b), guarded(|| Got::Bool(ua == ub))),
        9 => (Expect::Bool(a < b), guarded(|| Got::Bool(ua < ub))),
        10 => (Expect::Ord(a.cmp(b)), guarded(|| Got::Ord(ua.cmp(&ub)))),
        11 => (Expect::Bool(a.is_zero()), guarded(|| Got::Bool(ua.is_zero()))),
        12 => (fit(a.add(b)), val_d(guarded(|| da + db))),
        13 => (fit(a.add(b)), val_d(guarded(|| { let mut x = da; x += db; x }))),
        14 => (a.checked_sub(b).map(Expect::MustReturn).unwrap_or(Expect::MustAbort), val_d(guarded(|| da - db))),
        15 => {
            let p = a.mul(b);
            note_rem(&p, &e18);
            (prod_div(p, &e18), val_d(guarded(|| da * db)))
        }
        16 => {
            let p = a.mul(&e18);
            note_rem(&p, b);
            (prod_div(p, b), val_d(guarded(|| da / db)))
        }
        17 => {
            let p = a.mul(&e18);
            note_rem(&p, b);
            (prod_div(p, b), val_d(guarded(|| Decimal256::from_ratio(to_u256(a), to_u256(b)))))
        }
        18 => (fit(a.mul(&e18)), val_d(guarded(|| Decimal256::from_uint256(ua)))),
        19 | 20 => {
            let x = a.to_limbs256().unwrap()[0];
            let f = if op == 19 { Nat::pow10(16) } else { Nat::pow10(15) };
            let e = fit(Nat::from_u64(x).mul(&f));
            let g = if op == 19 { val_d(guarded(|| Decimal256::percent(x))) } else { val_d(guarded(|| Decimal256::permille(x))) };
            (e, g)
        }
        21 => (Expect::Bool(a == b), guarded(|| Got::Bool(da == db))),
        22 => (Expect::Bool(a < b), guarded(|| Got::Bool(da < db))),
        23 => (Expect::Ord(a.cmp(b)), guarded(|| Got::Ord(da.cmp(&db)))),
        24 => (Expect::Bool(a.is_zero()), guarded(|| Got::Bool(da.is_zero()))),
        25 => {
            // constants: one() is 10^18 atomics, zero() is 0; one()*x == x for integers x
            let ok = from_u256(&Decimal256::one().0) == e18 && from_u256(&Decimal256::zero().0).is_zero();
            (Expect::Bool(true), Ok(Got::Bool(ok)))
        }
        26 => {
            let ok = from_u256(&Uint256::one().0) == Nat::one() && from_u256(&Uint256::zero().0).is_zero();
            (Expect::Bool(true), Ok(Got::Bool(ok)))
        }
        27 => {
            let l = a.to_limbs256().unwrap();
            let x = (l[1] as u128) << 64 | l[0] as u128;
            (Expect::MustReturn(Nat::from_u128(x)), val_u(guarded(|| Uint256::from(x))))
        }
        28 => {
            let x = a.to_limbs256().unwrap()[0];
            (Expect::MustReturn(Nat::from_u64(x)), val_u(guarded(|| Uint256::from(x))))
        }
        _ => {
            // multiply_ratio with the 10^18 constant as nominator / denominator (as the decimal ops use it)
            let p = a.mul(&e18);
            note_rem(&p, b);
            (prod_div(p, b), val_u(guarded(|| ua.multiply_ratio(Decimal256::DECIMAL_FRACTIONAL, to_u256(b)))))
        }
    };
    (exp, got, rem)
}

fn judge(op: usize, a: &Nat, b: &Nat, c: &Nat, want_desc: bool) -> CaseResult {
    let (exp, got, rem) = eval(op, a, b, c);
    let got = match got {
        Ok(g) => g,
        Err(_) => Got::Abort,
    };
    let (ok, cls): (bool, &'static str) = match (&exp, &got) {
        (Expect::MustAbort, Got::Abort) => (true, "o:must-abort"),
        (Expect::MustAbort, _) => (false, "o:must-abort"),
        (Expect::MayAbort(_), Got::Abort) => (true, "o:may-abort/aborted"),
        (Expect::MayAbort(v), Got::Val(g)) => (v == g, "o:may-abort/returned"),
        (Expect::MustReturn(v), Got::Val(g)) => (v == g, "o:must-return"),
        (Expect::Bool(v), Got::Bool(g)) => (v == g, "o:predicate"),
        (Expect::Ord(v), Got::Ord(g)) => (v == g, "o:predicate"),
        _ => (false, "o:mismatch"),
    };
    let multi = a.bits() > 64 || b.bits() > 64 || c.bits() > 64;
    let aborted = matches!(got, Got::Abort);
    let la = a.to_limbs256().unwrap();
    let lb = b.to_limbs256().unwrap();
    let carry = match op {
        0 | 1 | 12 | 13 => la[0].checked_add(lb[0]).is_none(),
        2 | 14 => la[0] < lb[0],
        3 | 4 | 5 | 7 | 15 => a.bits() + b.bits() > 65,
        6 | 16 | 17 | 18 | 29 => a.bits() > 5,
        _ => false,
    };
    let nontrivial = multi && (aborted || rem || carry);
    let key = {
        let mut w = vec![op as u128];
        for l in [&la, &lb, &c.to_limbs256().unwrap()] {
            w.push((l[1] as u128) << 64 | l[0] as u128);
            w.push((l[3] as u128) << 64 | l[2] as u128);
        }
        hash_words(&w)
    };
    let desc = if want_desc || !ok {
        Some(json!({"op": OPS[op], "a": a.to_string(), "b": b.to_string(), "c": c.to_string(),
            "expected": format!("{:?}", exp), "observed": format!("{:?}", got)}))
    } else {
        None
    };
    let verdict = if ok {
        Verdict::Pass
    } else {
        Verdict::Fail(format!(
            "{}: a={} b={} c={} expected {:?} observed {:?}",
            OPS[op], a, b, c, exp, got
        ))
    };
    CaseResult { verdict, nontrivial, key, classes: vec![cls, op_label(op, cls)], desc }
}

fn op_label(op: usize, cls: &'static str) -> &'static str {
    use std::collections::HashMap;
    use std::sync::{Mutex, OnceLock};
    static T: OnceLock<Mutex<HashMap<(usize, &'static str), &'static str>>> = OnceLock::new();
    let mut m = T.get_or_init(|| Mutex::new(HashMap::new())).lock().unwrap();
    m.entry((op, cls)).or_insert_with(|| Box::leak(format!("{} {}", OPS[op], cls).into_boxed_str()))
}

fn run(t: &Tape, want_desc: bool) -> CaseResult {
    let mut s = Src::new(&t.head);
    let op = s.idx(OPS.len());
    let (a, ca) = gen256(&mut s);
    let (b, cb) = gen_partner(&mut s, &a);
    let c = if op == 7 {
        // denominator for multiply_ratio: related to the product so that results straddle 2^256
        match s.weighted(&[4, 3, 1]) {
            0 => gen256(&mut s).0,
            1 => {
                let p = a.mul(&b);
                let q = p.div(&Nat::max256()).add(&Nat::from_u64(s.below(3)));
                if q.fits256() { q } else { Nat::max256() }
            }
            _ => Nat::zero(),
        }
    } else {
        Nat::zero()
    };
    let mut r = judge(op, &a, &b, &c, want_desc);
    r.classes.push(CLASS_NAMES[ca]);
    r.classes.push(PARTNER_NAMES[cb]);
    r
}

fn direct(v: &Value) -> Result<CaseResult, String> {
    let g = |k: &str| -> Result<Nat, String> {
        let s = v.get(k).and_then(|x| x.as_str()).unwrap_or("0");
        Nat::from_dec_str(s).filter(|n| n.fits256()).ok_or_else(|| format!("bad operand {k}"))
    };
    let opname = v.get("op").and_then(|x| x.as_str()).ok_or("missing op")?;
    let op = OPS.iter().position(|o| *o == opname).ok_or_else(|| format!("unknown op {opname}"))?;
    Ok(judge(op, &g("a")?, &g("b")?, &g("c")?, true))
}

pub fn suites() -> Vec<Suite> {
    vec![Suite {
        name: "arith",
        about: "every public Uint256/Decimal256 operator vs the Nat oracle, three-valued expectation",
        head_len: 40,
        op_len: 0,
        max_ops: 0,
        quick_cases: 20_000_000,
        thorough_cases: 150_000_000,
        run,
        direct: Some(direct),
        must_hit: &["o:must-abort", "o:may-abort/aborted", "o:must-return", "o:predicate"],
    }]
}

pub const RULE: &str = "case = (operator, a, b[, c]) with operands from structured classes (log-uniform bit length 0..256, 2^k±1, limb patterns, 10^k±1 and multiples of 10^18, near-overflow partners floor((2^256-1)/a)+{-1,0,1} and the 10^18-scaled analogue, equal/adjacent, zero); non-trivial = some operand >= 2^64 AND (the call aborted OR a non-zero remainder was truncated OR a carry/borrow crossed a 64-bit limb); distinct = hash of (operator, operands)";
pub const ASSUMPTIONS: &[&str] = &[
    "Nat (hand-written big natural, validated against python3 golden vectors on every run) is the arithmetic ground truth",
    "a Rust panic in the library is an abort (transaction failure) on chain",
];
