//! C17 — Native-decimals updates reach every affected pair (DESIGN.md C17).
use crate::engine::*;
use crate::props::registry::*;
use crate::world::*;
use cosmwasm_std::{Coin, Uint128};
use haloswap::asset::{AssetInfo, CreatePairRequirements, LPTokenInfo};
use haloswap::factory::ExecuteMsg as FactoryExec;
use serde_json::{json, Value};

#[derive(serde::Serialize, serde::Deserialize, Clone, Debug)]
pub enum RegOp {
    Create { assets: [AssetInfo; 2] },
    Register { denom: String, decimals: u8 },
    /// the owner migrates a registered pair to the pair code (`alt` = its second stored copy, another code id)
    Migrate { pair: String, alt: bool },
    /// the owner changes the factory's default pair code id
    SetPairCode { alt: bool },
    /// the factory's chain-level admin (the owner) migrates the factory to its own code
    MigrateFactory,
}

fn lp() -> LPTokenInfo {
    LPTokenInfo { lp_token_name: "halo-lp".into(), lp_token_symbol: "HLP".into(), lp_token_decimals: None }
}
fn req() -> CreatePairRequirements {
    CreatePairRequirements { whitelist: vec![], first_asset_minimum: Uint128::zero(), second_asset_minimum: Uint128::zero() }
}

/// all fresh sets containing at least one native, in a tape-chosen rotation
fn fresh_sets(fw: &FactoryWorld) -> Vec<[AssetInfo; 2]> {
    let uni = fw.universe(false);
    let mut v = vec![];
    for i in 0..uni.len() {
        for j in (i + 1)..uni.len() {
            if fw.true_decimals(&uni[i]).is_some() && fw.true_decimals(&uni[j]).is_some() && !fw.model.pairs.contains_key(&set_key(&uni[i], &uni[j])) {
                v.push([uni[i].clone(), uni[j].clone()]);
            }
        }
    }
    v
}

fn decode(fw: &FactoryWorld, chunk: &[u64]) -> Vec<RegOp> {
    let mut o = Src::new(chunk);
    match o.weighted(&[3, 4, 1, 1, 1]) {
        4 => {
            // administration that must not disturb any later update
            let addrs: Vec<String> = fw.model.pairs.values().map(|m| m.addr.clone()).collect();
            match o.below(4) {
                0 | 1 if !addrs.is_empty() => vec![RegOp::Migrate { pair: addrs[o.idx(addrs.len())].clone(), alt: o.bool() }],
                2 => vec![RegOp::SetPairCode { alt: o.bool() }],
                _ => vec![RegOp::MigrateFactory],
            }
        }
        0 => {
            // a burst of creations: registry sizes straddle the listing limits 10 and 30
            let mut sets = fresh_sets(fw);
            let burst = match o.weighted(&[3, 2, 2, 1]) {
                0 => o.range(1, 3),
                1 => o.range(4, 9),
                2 => o.range(10, 14),
                _ => o.range(15, 40),
            } as usize;
            let mut out = vec![];
            for _ in 0..burst {
                if sets.is_empty() {
                    break;
                }
                let mut s = sets.remove(o.idx(sets.len()));
                if o.bool() {
                    s.swap(0, 1);
                }
                out.push(RegOp::Create { assets: s });
            }
            out
        }
        1 => {
            // re-registration of a registered denom (prefer one that is in some pair)
            let regs: Vec<String> = fw.model.denoms.keys().cloned().collect();
            if regs.is_empty() {
                return vec![];
            }
            // ("in some pair" by spelling: a denom spelled like a cw20 address counts when that token is paired,
            // so that re-registering it meets pairs that hold the same spelling as a different asset)
            let used: Vec<String> = regs.iter().filter(|d| fw.model.pairs.keys().any(|(a, b)| a[2..] == **d || b[2..] == **d)).cloned().collect();
            let d = if !used.is_empty() && o.chance(4, 5) { used[o.idx(used.len())].clone() } else { regs[o.idx(regs.len())].clone() };
            vec![RegOp::Register { denom: d, decimals: o.below(19) as u8 }]
        }
        2 => {
            // first registration of a so far unregistered denom
            let un: Vec<String> = fw.w.natives.iter().filter(|d| !fw.model.denoms.contains_key(*d)).cloned().collect();
            if un.is_empty() {
                return vec![];
            }
            vec![RegOp::Register { denom: un[o.idx(un.len())].clone(), decimals: o.below(19) as u8 }]
        }
        _ => {
            // (re-)registration of an upper-case LOOK-ALIKE of a registered denom: a different denom, so
            // the registered one and every pair containing it must stay untouched
            let regs: Vec<String> = fw.model.denoms.keys().filter(|d| d.to_uppercase() != **d).cloned().collect();
            if regs.is_empty() {
                return vec![];
            }
            vec![RegOp::Register { denom: regs[o.idx(regs.len())].to_uppercase(), decimals: o.below(19) as u8 }]
        }
    }
}

fn check_decimals(fw: &FactoryWorld) -> Result<(), String> {
    for (d, dec) in &fw.model.denoms {
        match fw.denom_decimals(d) {
            Ok(x) if x == *dec => {}
            other => return Err(format!("NativeTokenDecimals{{{}}} = {:?}, expected {}", d, other, dec)),
        }
    }
    for (k, m) in &fw.model.pairs {
        let f = fw.factory_pair(&m.infos[0], &m.infos[1]).map_err(|e| format!("factory lookup of {:?} fails: {}", k, e))?;
        let own = fw.pair_self(&m.addr).map_err(|e| format!("pair {} does not answer: {}", m.addr, e))?;
        if f.asset_decimals != own.asset_decimals {
            return Err(format!("factory record of {:?} has decimals {:?} but the pair {} describes itself with {:?}", k, f.asset_decimals, m.addr, own.asset_decimals));
        }
        if f != own {
            return Err(format!("factory record of {:?} and the pair's self-description diverge: factory {:?} vs pair {:?}", k, f, own));
        }
        if f.asset_decimals != m.decimals {
            return Err(format!("pair {:?} (assets {:?}) reports decimals {:?}; the registered/true decimals are {:?}", k, m.infos, f.asset_decimals, m.decimals));
        }
        if f.contract_addr != m.addr || own.asset_infos != m.infos {
            return Err(format!("pair {:?}: record/self-description do not match the creation ({} vs {}, {:?} vs {:?})", k, f.contract_addr, m.addr, own.asset_infos, m.infos));
        }
    }
    Ok(())
}

fn play(cfg: &WorldCfg, next: &mut dyn FnMut(&FactoryWorld, usize) -> Option<Vec<RegOp>>, want_desc: bool, key: u64) -> CaseResult {
    let mut fw = FactoryWorld::build(cfg);
    let owner = fw.w.owner.to_string();
    let mut classes: Vec<&'static str> = vec![];
    let mut log: Vec<Value> = vec![];
    let mut concrete: Vec<RegOp> = vec![];
    let mut verdict = Verdict::Pass;
    let mut nontrivial = false;
    let mut idx = 0usize;
    'outer: while let Some(ops) = next(&fw, idx) {
        idx += 1;
        for op in ops {
            if want_desc {
                concrete.push(op.clone());
            }
            match &op {
                RegOp::Create { assets } => {
                    let (da, db) = (fw.true_decimals(&assets[0]), fw.true_decimals(&assets[1]));
                    let rec = fw.create_pair(&owner, assets.clone(), req(), None, lp());
                    if want_desc {
                        log.push(json!({"create": [assets[0].to_string(), assets[1].to_string()], "ok": rec.outcome.is_ok()}));
                    }
                    if rec.outcome.is_ok() {
                        let addr = match &rec.outcome {
                            Outcome::Ok { attrs } => attrs.iter().flat_map(|(_, a)| a.iter()).find(|(k, _)| k == "pair_contract_addr").map(|(_, v)| v.clone()).unwrap_or_default(),
                            _ => String::new(),
                        };
                        if let (Some(da), Some(db)) = (da, db) {
                            fw.model.pairs.insert(set_key(&assets[0], &assets[1]), ModelPair { addr, infos: assets.clone(), decimals: [da, db], requirements: req(), commission: 3_000_000_000_000_000 });
                        }
                    } else {
                        classes.push("r:creation-refused");
                    }
                }
                RegOp::Migrate { pair, alt } => {
                    let code = if *alt { fw.w.codes.pair_alt } else { fw.w.codes.pair };
                    let rec = fw.w.exec(Step { sender: owner.clone(), call: Call::Factory { msg: FactoryExec::MigratePair { contract: pair.clone(), code_id: Some(code) } }, funds: vec![] });
                    if rec.outcome.is_ok() {
                        classes.push(if *alt { "adm:pair-migrated-to-other-code-id" } else { "adm:pair-migrated" });
                    }
                    if want_desc {
                        log.push(json!({"migrate": pair, "alt": alt, "ok": rec.outcome.is_ok()}));
                    }
                }
                RegOp::SetPairCode { alt } => {
                    let code = if *alt { fw.w.codes.pair_alt } else { fw.w.codes.pair };
                    let rec = fw.w.exec(Step { sender: owner.clone(), call: Call::Factory { msg: FactoryExec::UpdateConfig { owner: None, token_code_id: None, pair_code_id: Some(code) } }, funds: vec![] });
                    if rec.outcome.is_ok() {
                        classes.push("adm:default-pair-code-changed");
                    }
                    if want_desc {
                        log.push(json!({"set_pair_code_alt": alt, "ok": rec.outcome.is_ok()}));
                    }
                }
                RegOp::MigrateFactory => {
                    let (f, c) = (fw.w.factory.to_string(), fw.w.codes.factory);
                    let rec = fw.w.exec(Step { sender: owner.clone(), call: Call::Migrate { contract: f, code_id: c }, funds: vec![] });
                    if rec.outcome.is_ok() {
                        classes.push("adm:factory-migrated");
                    }
                    if want_desc {
                        log.push(json!({"migrate_factory": true, "ok": rec.outcome.is_ok()}));
                    }
                }
                RegOp::Register { denom, decimals } => {
                    let first = !fw.model.denoms.contains_key(denom);
                    if first {
                        // the factory must hold a balance of the denom to register it
                        let _ = fw.w.exec(Step { sender: owner.clone(), call: Call::Bank { to: fw.w.factory.to_string(), coins: vec![Coin { denom: denom.clone(), amount: Uint128::new(1) }] }, funds: vec![] });
                    }
                    let rec = fw.w.exec(Step { sender: owner.clone(), call: Call::Factory { msg: FactoryExec::AddNativeTokenDecimals { denom: denom.clone(), decimals: *decimals } }, funds: vec![] });
                    if want_desc {
                        log.push(json!({"register": denom, "decimals": decimals, "first": first, "ok": rec.outcome.is_ok(), "registry_size": fw.model.pairs.len()}));
                    }
                    if !rec.outcome.is_ok() {
                        classes.push("r:registration-refused");
                        if !rec.state_unchanged() {
                            verdict = Verdict::Fail(format!("refused AddNativeTokenDecimals({}, {}) changed chain state", denom, decimals));
                            break 'outer;
                        }
                        continue;
                    }
                    fw.model.denoms.insert(denom.clone(), *decimals);
                    let mut affected = 0;
                    let n_pairs = fw.model.pairs.len();
                    for m in fw.model.pairs.values_mut() {
                        for i in 0..2 {
                            if m.infos[i] == (AssetInfo::NativeToken { denom: denom.clone() }) {
                                m.decimals[i] = *decimals;
                                affected += 1;
                                classes.push(if i == 0 { "pos:first" } else { "pos:second" });
                                classes.push(if m.infos[1 - i].is_native_token() { "kind:native/native" } else { "kind:native/cw20" });
                            }
                        }
                    }
                    classes.push(if first { "reg:first-registration" } else { "reg:re-registration" });
                    if *denom != denom.to_lowercase() {
                        classes.push("reg:look-alike-denom");
                    }
                    if !first && affected > 0 {
                        nontrivial = true;
                        classes.push(match n_pairs {
                            0..=9 => "size:1-9",
                            10 => "size:10",
                            11..=30 => "size:11-30",
                            _ => "size:31+",
                        });
                    }
                }
            }
            // factory record and pair self-description never diverge, after any step
            if let Err(m) = check_decimals(&fw) {
                verdict = Verdict::Fail(format!("after {:?} with {} registered pairs: {}", op, fw.model.pairs.len(), m));
                break 'outer;
            }
        }
    }
    classes.sort();
    classes.dedup();
    let desc = if want_desc || matches!(verdict, Verdict::Fail(_)) {
        let mut d = json!({"registry": describe_registry(&fw), "ops": log});
        if want_desc {
            d["concrete"] = json!({"cfg": cfg, "ops": concrete});
        }
        Some(d)
    } else {
        None
    };
    CaseResult { verdict, nontrivial, key, classes, desc }
}

fn run(t: &Tape, want_desc: bool) -> CaseResult {
    let mut s = Src::new(&t.head);
    let cfg = gen_factory_cfg(&mut s, 5, 9, true);
    let mut next = |fw: &FactoryWorld, i: usize| t.ops.get(i).map(|c| decode(fw, c));
    play(&cfg, &mut next, want_desc, fnv64(&t.to_bytes()))
}

fn direct(v: &Value) -> Result<CaseResult, String> {
    let cfg: WorldCfg = serde_json::from_value(v.get("cfg").cloned().ok_or("missing cfg")?).map_err(|e| format!("cfg: {e}"))?;
    let ops: Vec<RegOp> = serde_json::from_value(v.get("ops").cloned().ok_or("missing ops")?).map_err(|e| format!("ops: {e}"))?;
    let mut next = |_: &FactoryWorld, i: usize| ops.get(i).map(|o| vec![o.clone()]);
    Ok(play(&cfg, &mut next, true, fnv64(v.to_string().as_bytes())))
}

// ------------------------------------------------------------------------------------------------
// LIVE pairs: the same agreement inside trading histories (pairs that hold liquidity, were swapped on,
// migrated ...) - the factory-only worlds above never fund a pair

/// trading histories in which one operation in seven is owner administration (mostly re-registrations)
const ADMINISTERED: crate::hist::Profile = crate::hist::Profile {
    name: "administered",
    w: [10, 5, 8, 6, 2, 1, 3, 1, 0, 6],
    adversarial_16: 1,
    extra_ask_16: 0,
    stray_coin_16: 0,
    funds_games_16: 0,
    max_pairs: 4,
    connected: false,
    hostile: false,
    special: None,
};

#[derive(Default)]
pub struct C17LiveOracle {
    nontrivial: u64,
}

impl crate::sys::StepOracle for C17LiveOracle {
    fn on_step(&mut self, cx: &mut crate::sys::StepCtx, classes: &mut Vec<&'static str>) -> Verdict {
        // judged after every successful operation of the owner (re-registration, configuration, migrations)
        if !cx.rec.outcome.is_ok() || cx.rec.step.sender != cx.world.owner.as_str() {
            return Verdict::Pass;
        }
        let w = &*cx.world;
        let re_registration = matches!(&cx.rec.step.call, Call::Factory { msg: FactoryExec::AddNativeTokenDecimals { .. } });
        for (p, pr) in w.pairs.iter().enumerate() {
            let want = [w.asset_decimals(pr.assets[0]), w.asset_decimals(pr.assets[1])];
            let own: haloswap::asset::PairInfo = match w.query(pr.addr.as_str(), &haloswap::pair::QueryMsg::Pair {}) {
                Ok(x) => x,
                Err(e) => return Verdict::Fail(format!("step {}: pair{} no longer answers its Pair query after an owner operation: {}", cx.index, p, e)),
            };
            let rec: haloswap::asset::PairInfo = match w.query(w.factory.as_str(), &haloswap::factory::QueryMsg::Pair { asset_infos: pr.infos.clone() }) {
                Ok(x) => x,
                Err(e) => return Verdict::Fail(format!("step {}: the factory no longer finds pair{} after an owner operation: {}", cx.index, p, e)),
            };
            // the factory's record of a pair is the pair's own description of itself, member for member (C16 states
            // it for creation; nothing an owner does afterwards may separate the two)
            if own != rec {
                let (_, _, supply) = w.pool(p);
                return Verdict::Fail(format!(
                    "step {}: after an owner operation the factory's record of pair{} (LP supply {}) is {:?} but the pair describes itself as {:?}",
                    cx.index, p, supply, rec, own
                ));
            }
            if own.asset_decimals != want || rec.asset_decimals != want {
                let (_, _, supply) = w.pool(p);
                return Verdict::Fail(format!(
                    "step {}: after {} the registered decimals of pair{}'s assets [{}, {}] are {:?}, the factory's record says {:?} and the pair (LP supply {}) describes itself with {:?}",
                    cx.index, if re_registration { "a re-registration" } else { "an owner operation" }, p, pr.infos[0], pr.infos[1], want, rec.asset_decimals, supply, own.asset_decimals
                ));
            }
            if re_registration {
                let (_, _, supply) = w.pool(p);
                if let Call::Factory { msg: FactoryExec::AddNativeTokenDecimals { denom, .. } } = &cx.rec.step.call {
                    if pr.infos.iter().any(|i| matches!(i, AssetInfo::NativeToken { denom: d } if d == denom)) {
                        if supply > 0 {
                            self.nontrivial += 1;
                            classes.push("live:re-registered-denom-in-funded-pair");
                        } else {
                            classes.push("live:re-registered-denom-in-empty-pair");
                        }
                    }
                }
            }
        }
        classes.push("live:owner-operation-judged");
        Verdict::Pass
    }
    fn nontrivial(&self) -> bool {
        self.nontrivial > 0
    }
}

pub fn run_live(t: &Tape, want_desc: bool) -> CaseResult {
    let mut o = C17LiveOracle::default();
    let h = crate::sys::run_history(t, &ADMINISTERED, 13, &mut o, want_desc);
    crate::sys::hist_case(t, h)
}

pub fn suites() -> Vec<Suite> {
    vec![Suite {
        name: "live_pairs",
        about: "trading histories (provisions, withdrawals, swaps, routes) with owner administration interleaved; after every successful owner operation registered decimals == factory record == self-description of EVERY pair, funded or not",
        head_len: crate::hist::HEAD_LEN,
        op_len: crate::hist::OP_LEN,
        max_ops: 24,
        quick_cases: 6_000,
        thorough_cases: 150_000,
        run: run_live,
        direct: Some(crate::sys::direct_with::<C17LiveOracle>),
        must_hit: &["live:re-registered-denom-in-funded-pair", "live:owner-operation-judged"],
    }, Suite {
        name: "decimals_updates",
        about: "histories mixing bursts of pair creations (registry sizes 1..40, straddling the listing limits 10 and 30) with first registrations and re-registrations of native decimals; after every operation factory record == pair self-description == model for every pair and every denom",
        head_len: FACTORY_HEAD,
        op_len: FACTORY_OP,
        max_ops: 14,
        quick_cases: 10_000,
        thorough_cases: 150_000,
        run,
        direct: Some(direct),
        must_hit: &["reg:first-registration", "reg:re-registration", "reg:look-alike-denom", "pos:first", "pos:second", "kind:native/native", "kind:native/cw20", "size:1-9", "size:11-30", "size:31+"],
    }]
}

pub const RULE: &str = "case = factory world (5-9 prefix-sharing denoms, some unregistered, 0-3 cw20 tokens) + history of <= 14 operations, each a burst of 1..40 fresh pair creations, a re-registration of a registered denom (4/5 biased to denoms that are in some pair), a first registration, or the registration of an upper-case look-alike of a registered denom (a different coin); after EVERY single creation / registration: NativeTokenDecimals of every registered denom == model; for every registered pair factory.Pair.asset_decimals == pair.Pair{}.asset_decimals == model (new value in the position of the updated denom, everything else untouched); non-trivial = a re-registration with >= 1 affected pair; histogram tracks the registry size class (1-9, 10, 11-30, 31+), the position of the denom and the pair kind; distinct = hash of the tape Suite live_pairs: case = trading world + history of <= 24 operations (profile 'administered': provisions, withdrawals, swaps, routes, donations, and 1 operation in 7 owner administration - re-registration of a denom, the decimals update sent straight to a pair, configuration update, pair migration to either code id, factory migration); after EVERY successful operation of the owner, for EVERY pair: the factory's Pair record == the pair's own Pair answer (all members) and both carry the currently registered decimals; non-trivial = a re-registration of a denom traded by a FUNDED pair";
pub const ASSUMPTIONS: &[&str] = &["cw-multi-test chain model"];
