//! C04 — Withdrawal pays the pro-rata share: never more, at most dust less (DESIGN.md C04).

use crate::engine::*;
use crate::hist::*;
use crate::nat::{n, Nat};
use crate::sys::*;
use crate::world::*;
use haloswap::asset::AssetInfo;

#[derive(Default)]
pub struct C04Oracle {
    nontrivial: u64,
}

/// judge one executed withdrawal (also used by C20 on forks)
pub fn judge_withdraw(w: &World, rec: &StepRecord, pair: usize, a: u128, holder: &str, owner: &str, idx: usize, classes: &mut Vec<&'static str>) -> Result<bool, String> {
    let pr = &w.pairs[pair];
    if !rec.outcome.is_ok() {
        classes.push("w:rejected");
        if !rec.state_unchanged() {
            return Err(format!("step {}: rejected withdrawal changed chain state", idx));
        }
        return Ok(false);
    }
    classes.push("w:paid");
    let (r0, r1, s) = pool_in(w, &rec.before, pair);
    let rs = [r0, r1];
    let lp = AssetInfo::Token { contract_addr: pr.lp.to_string() };
    let actual = actual_deltas(rec);
    let mut expected = DeltaMap::new();
    let mut rounding = false;
    for i in 0..2 {
        let x = rec.delta(&pr.infos[i], holder);
        if x < 0 {
            return Err(format!("step {}: withdrawal took {} of {} from the holder", idx, -x, pr.infos[i]));
        }
        let x = x as u128;
        // x*S <= r*a
        if n(x).mul(&n(s)) > n(rs[i]).mul(&n(a)) {
            return Err(format!("step {}: withdrawal of {} LP out of {} paid {} of {} from reserve {}: more than the pro-rata share", idx, a, s, x, pr.infos[i], rs[i]));
        }
        // (x+1)*S*E18 + r*S > r*a*E18
        let lhs = n(x).add(&Nat::one()).mul(&n(s)).mul(&Nat::e18()).add(&n(rs[i]).mul(&n(s)));
        if !(lhs > n(rs[i]).mul(&n(a)).mul(&Nat::e18())) {
            return Err(format!("step {}: withdrawal of {} LP out of {} paid {} of {} from reserve {}: more than r/10^18 + 1 below the pro-rata share", idx, a, s, x, pr.infos[i], rs[i]));
        }
        if !n(rs[i]).mul(&n(a)).rem(&n(s.max(1))).is_zero() {
            rounding = true;
        }
        add_delta(&mut expected, holder, &pr.infos[i], x as i128);
        add_delta(&mut expected, pr.addr.as_str(), &pr.infos[i], -(x as i128));
    }
    // (the LP tokens leave their owner: the holder itself, or the account whose allowance the holder spends)
    add_delta(&mut expected, owner, &lp, -(a as i128));
    if owner != holder {
        classes.push("w:delivered-through-SendFrom");
    }
    if let Some(d) = diff_deltas(&expected, &actual) {
        return Err(format!("step {}: withdrawal of {} LP by {}: {}", idx, a, holder, d));
    }
    let sc = supply_changes(rec);
    if sc.len() != 1 || sc[0].0 != pr.lp.as_str() || sc[0].1 != -(a as i128) {
        return Err(format!("step {}: withdrawal of {} LP changed supplies {:?}, expected exactly -{} on the pair's LP token", idx, a, sc, a));
    }
    Ok(rounding && a >= 1 && a < s)
}

impl StepOracle for C04Oracle {
    fn on_step(&mut self, cx: &mut StepCtx, classes: &mut Vec<&'static str>) -> Verdict {
        if let Intent::Withdraw { pair, amount, holder, owner } = cx.intent {
            let (r0, r1, s) = pool_in(cx.world, &cx.rec.before, *pair);
            if cx.rec.outcome.is_ok() {
                if r0.max(r1) > s.saturating_mul(1 << 20) {
                    classes.push("shape:reserves>>supply");
                }
                if s > r0.min(r1).saturating_mul(1 << 20) {
                    classes.push("shape:supply>>reserve");
                }
            }
            match judge_withdraw(cx.world, cx.rec, *pair, *amount, holder, owner, cx.index, classes) {
                Ok(nt) => {
                    if nt {
                        self.nontrivial += 1;
                    }
                    Verdict::Pass
                }
                Err(m) => Verdict::Fail(m),
            }
        } else {
            Verdict::Pass
        }
    }
    fn nontrivial(&self) -> bool {
        self.nontrivial > 0
    }
}

fn run(t: &Tape, want_desc: bool) -> CaseResult {
    let mut o = C04Oracle::default();
    let h = run_history(t, &LIQUIDITY, 15, &mut o, want_desc);
    hist_case(t, h)
}
fn run_hostile(t: &Tape, want_desc: bool) -> CaseResult {
    let mut o = C04Oracle::default();
    let h = run_history(t, &HOSTILE, 15, &mut o, want_desc);
    hist_case(t, h)
}

pub fn suites() -> Vec<Suite> {
    vec![
        Suite {
            name: "withdrawals",
            about: "liquidity-heavy histories; every withdrawal judged against exact pro-rata bounds, exact burn and a ledger diff touching only holder and pair",
            head_len: HEAD_LEN,
            op_len: OP_LEN,
            max_ops: 30,
            quick_cases: 20_000,
            thorough_cases: 400_000,
            run,
            direct: Some(direct_with::<C04Oracle>),
            must_hit: &["w:paid", "w:rejected", "pair:native/native", "pair:native/cw20", "pair:cw20/cw20"],
        },
        Suite {
            name: "withdrawals_hostile",
            about: "same judgement after donations up to 2^120 and heavy swaps (reserves >> supply, supply >> reserves)",
            head_len: HEAD_LEN,
            op_len: OP_LEN,
            max_ops: 30,
            quick_cases: 10_000,
            thorough_cases: 200_000,
            run: run_hostile,
            direct: Some(direct_with::<C04Oracle>),
            must_hit: &["w:paid", "shape:reserves>>supply", "shape:supply>>reserve"],
        },
    ]
}

pub const RULE: &str = "case = world + history (profiles 'liquidity' and 'hostile'); withdraw amounts from {fraction of the LP balance, balance, balance-1, 1, 2, 0}, holders include bystanders and fresh addresses that were given LP tokens; every withdrawal attempt is judged (success: x_i*S <= r_i*a, (x_i+1)*S*10^18 + r_i*S > r_i*a*10^18, supply and holder LP fall by exactly a, complete ledger diff touches only holder and pair; failure: chain state byte-identical); non-trivial = a successful withdrawal with 1 <= a < S where some r_i*a mod S != 0; distinct = hash of the tape";
pub const ASSUMPTIONS: &[&str] = &["cw-multi-test chain model; reserves/supply read from raw chain storage before the transaction"];
