//! C01 — A swap never lowers the reserve product nor empties a reserve.
use crate::engine::Suite;

pub fn suites() -> Vec<Suite> {
    let mut v = vec![];
    if cfg!(feature = "d-swap") {
        v.push(super::swapf::suite_c01());
    }
    v.extend(sys_suites());
    v
}
pub const RULE: &str = "function level: case = (offer reserve x, ask reserve y, offer a, commission C) from 8 classes (log-uniform 128-bit; residue classes y*a ≡ 0,1,-1 mod (x+a); the 10^-18 truncation window built from x+a ≡ 1 (mod a); its boundary; the emptying region a > x*y*10^18; x*y*10^18 straddling 2^256; zeros/ones; a=1 window) x commission from {0, 1e-18, 0.003, 0.03, 0.5, 1-1e-18, 1, uniform, few-digit, rates putting C*gross within ±1 of a multiple of 10^18}; non-trivial = the call returned and paid out >= 1; distinct = hash of (x,y,a,C). system level: see suite descriptions";
pub const ASSUMPTIONS: &[&str] = &[
    "Nat oracle is exact; aborts (panics) are rejections and are counted, not judged (C01 speaks of successful swaps)",
    "cases matching the KF-SWAP-ROUNDUP root-cause signature (r = y*a mod (x+a) > 0, (x+a-r)*10^18 < x+a, return+commission = floor(y*a/(x+a))+1) are counted and excluded from the verdict only while listed in KNOWN_FINDINGS.txt",
];

// ---- system level --------------------------------------------------------------------------------
use crate::engine::*;
use crate::hist::*;
use crate::known::known_or_fail;
use crate::nat::n;
use crate::props::c03::{roundup_analysis, swap_events};
use crate::sys::*;

#[derive(Default)]
pub struct C01Oracle {
    swaps_with_payout: u64,
}

impl StepOracle for C01Oracle {
    fn on_step(&mut self, cx: &mut StepCtx, classes: &mut Vec<&'static str>) -> Verdict {
        if !cx.rec.outcome.is_ok() {
            return Verdict::Pass;
        }
        let w = &*cx.world;
        let mut verdict = Verdict::Pass;
        for p in 0..w.pairs.len() {
            let evs = swap_events(w, cx.rec, cx.intent, p);
            if evs.is_empty() {
                continue;
            }
            classes.push(match cx.intent {
                Intent::Swap { hook: false, .. } => "e:execute-swap",
                Intent::Swap { hook: true, .. } => "e:cw20-hook",
                Intent::Route { .. } => "e:router-hop",
                _ => "e:other",
            });
            classes.push(match (w.pairs[p].infos[0].is_native_token(), w.pairs[p].infos[1].is_native_token()) {
                (true, true) => "swapped:native/native",
                (false, false) => "swapped:cw20/cw20",
                _ => "swapped:native/cw20",
            });
            if evs.iter().any(|e| e.ret > 0) {
                self.swaps_with_payout += 1;
            }
            let b = pool_in(w, &cx.rec.before, p);
            let a = pool_in(w, &cx.rec.after, p);
            let mut problem = None;
            if n(a.0).mul(&n(a.1)) < n(b.0).mul(&n(b.1)) {
                problem = Some(format!("step {}: pair{} reserves ({}, {}) -> ({}, {}): product fell across a successful swap", cx.index, p, b.0, b.1, a.0, a.1));
            }
            // the reserve of the asset paid out stays strictly positive
            for e in &evs {
                let ask = 1 - e.side;
                let (before_ask, after_ask) = if ask == 0 { (b.0, a.0) } else { (b.1, a.1) };
                if before_ask >= 1 && after_ask == 0 && problem.is_none() {
                    problem = Some(format!("step {}: pair{} reserve of the paid-out asset went {} -> 0", cx.index, p, before_ask));
                }
            }
            // per-swap relations (catches an over-payment even when another flow of the same
            // transaction masks it at the balance level)
            let analysis = roundup_analysis(&evs);
            match (problem, analysis) {
                (None, Ok(None)) => {}
                (_, Err(e)) => return Verdict::Fail(format!("step {}: pair{}: {}", cx.index, p, e)),
                (Some(pb), Ok(None)) => return Verdict::Fail(format!("{} (no swap of this transaction explains it)", pb)),
                (pb, Ok(Some(kf))) => {
                    classes.push("o:known-roundup");
                    if matches!(verdict, Verdict::Pass) {
                        verdict = known_or_fail("C01", "KF-SWAP-ROUNDUP", format!("{} [{}]", pb.unwrap_or_else(|| format!("step {}: pair{}", cx.index, p)), kf));
                    }
                }
            }
        }
        verdict
    }
    fn nontrivial(&self) -> bool {
        self.swaps_with_payout > 0
    }
}

fn run_sys(t: &Tape, want_desc: bool) -> CaseResult {
    let mut o = C01Oracle::default();
    let h = run_history(t, &SWAPPY, 15, &mut o, want_desc);
    hist_case(t, h)
}
fn run_sys_hostile(t: &Tape, want_desc: bool) -> CaseResult {
    let mut o = C01Oracle::default();
    let h = run_history(t, &HOSTILE, 15, &mut o, want_desc);
    hist_case(t, h)
}

pub fn sys_suites() -> Vec<Suite> {
    vec![
        Suite {
            name: "world_swaps",
            about: "swap-heavy histories in a cw-multi-test world; every successful swap (execute, cw20 hook, router hop) judged on the pair's real balances and hop by hop on its swap events",
            head_len: HEAD_LEN,
            op_len: OP_LEN,
            max_ops: 30,
            quick_cases: 12_000,
            thorough_cases: 300_000,
            run: run_sys,
            direct: Some(direct_with::<C01Oracle>),
            must_hit: &["e:execute-swap", "e:cw20-hook", "e:router-hop", "swapped:native/native", "swapped:native/cw20", "swapped:cw20/cw20"],
        },
        Suite {
            name: "world_swaps_hostile",
            about: "same judgement on histories that drive pools to extreme magnitudes (18-decimal reserves above 10^18 then 1-unit swaps, dust reserves then huge offers)",
            head_len: HEAD_LEN,
            op_len: OP_LEN,
            max_ops: 25,
            quick_cases: 8_000,
            thorough_cases: 200_000,
            run: run_sys_hostile,
            direct: Some(direct_with::<C01Oracle>),
            must_hit: &["e:execute-swap", "e:cw20-hook"],
        },
    ]
}
