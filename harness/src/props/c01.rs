//! C01 — A swap never lowers the reserve product nor empties a reserve.
use crate::engine::Suite;

pub fn suites() -> Vec<Suite> {
    vec![super::swapf::suite_c01()]
}
pub const RULE: &str = "function level: case = (offer reserve x, ask reserve y, offer a, commission C) from 8 classes (log-uniform 128-bit; residue classes y*a ≡ 0,1,-1 mod (x+a); the 10^-18 truncation window built from x+a ≡ 1 (mod a); its boundary; the emptying region a > x*y*10^18; x*y*10^18 straddling 2^256; zeros/ones; a=1 window) x commission from {0, 1e-18, 0.003, 0.03, 0.5, 1-1e-18, 1, uniform, few-digit, rates putting C*gross within ±1 of a multiple of 10^18}; non-trivial = the call returned and paid out >= 1; distinct = hash of (x,y,a,C). system level: see suite descriptions";
pub const ASSUMPTIONS: &[&str] = &[
    "Nat oracle is exact; aborts (panics) are rejections and are counted, not judged (C01 speaks of successful swaps)",
    "cases matching the KF-SWAP-ROUNDUP root-cause signature (r = y*a mod (x+a) > 0, (x+a-r)*10^18 < x+a, return+commission = floor(y*a/(x+a))+1) are counted and excluded from the verdict only while listed in KNOWN_FINDINGS.txt",
];
