//! Quote-vs-execution oracles: the system-level half of C06 and relation (a), (b), (c) of C12.

use crate::engine::*;
use crate::hist::*;
use crate::nat::{n, Nat};
use crate::props::c03::swap_events;
use crate::props::swapf::c06_relations;
use crate::sys::*;
use crate::world::*;
use cosmwasm_std::Uint128;
use haloswap::asset::Asset;
use haloswap::pair::{QueryMsg as PairQuery, ReverseSimulationResponse, SimulationResponse};
use haloswap::router::{QueryMsg as RouterQuery, SimulateSwapOperationsResponse, SwapOperation};

/// forward simulation in the pre-state vs the executed swap; optionally C06's relations
pub struct SimExecOracle {
    pub relations: bool,
    quoted: Option<(usize, usize, u128, Result<SimulationResponse, String>)>,
    nontrivial: u64,
}

impl SimExecOracle {
    pub fn new(relations: bool) -> Self {
        SimExecOracle { relations, quoted: None, nontrivial: 0 }
    }
}
pub struct SimExecWithRelations(pub SimExecOracle);
impl Default for SimExecWithRelations {
    fn default() -> Self {
        SimExecWithRelations(SimExecOracle::new(true))
    }
}
pub struct SimExecOnly(pub SimExecOracle);
impl Default for SimExecOnly {
    fn default() -> Self {
        SimExecOnly(SimExecOracle::new(false))
    }
}
impl StepOracle for SimExecWithRelations {
    fn pre_step(&mut self, w: &mut World, s: &Step, i: &Intent, g: &GenState) {
        self.0.pre_step(w, s, i, g)
    }
    fn on_step(&mut self, cx: &mut StepCtx, c: &mut Vec<&'static str>) -> Verdict {
        self.0.on_step(cx, c)
    }
    fn nontrivial(&self) -> bool {
        self.0.nontrivial()
    }
}
impl StepOracle for SimExecOnly {
    fn pre_step(&mut self, w: &mut World, s: &Step, i: &Intent, g: &GenState) {
        self.0.pre_step(w, s, i, g)
    }
    fn on_step(&mut self, cx: &mut StepCtx, c: &mut Vec<&'static str>) -> Verdict {
        self.0.on_step(cx, c)
    }
    fn nontrivial(&self) -> bool {
        self.0.nontrivial()
    }
}

impl StepOracle for SimExecOracle {
    fn pre_step(&mut self, w: &mut World, _step: &Step, intent: &Intent, _gs: &GenState) {
        self.quoted = None;
        if let Intent::Swap { pair, offer, .. } = intent {
            if let Some(side) = w.pairs[*pair].infos.iter().position(|i| *i == offer.info) {
                self.quoted = Some((*pair, side, offer.amount.u128(), simulate(w, *pair, side, offer.amount.u128())));
            }
        }
    }
    fn on_step(&mut self, cx: &mut StepCtx, classes: &mut Vec<&'static str>) -> Verdict {
        let w = &*cx.world;
        let (pair, hook, offer, delivered) = match cx.intent {
            Intent::Swap { pair, hook, offer, delivered, .. } => (*pair, *hook, offer, delivered),
            _ => return Verdict::Pass,
        };
        if !cx.rec.outcome.is_ok() {
            return Verdict::Pass;
        }
        let pr = &w.pairs[pair];
        // the offer arrives exactly, and nothing else that is an asset of THIS pair comes with it (a coin of the
        // pair's other denom changes the reserves the swap prices on; a stray coin of any other denom does not)
        let offer_exact = delivered.iter().filter(|(i, _)| *i == offer.info).map(|(_, a)| *a).sum::<u128>() == offer.amount.u128() && offer.amount.u128() > 0;
        let other_pair_asset = delivered.iter().any(|(i, a)| *a > 0 && *i != offer.info && pr.infos.contains(i));
        if !offer_exact || other_pair_asset {
            classes.push("q:skipped-extra-funds");
            return Verdict::Pass;
        }
        if delivered.iter().any(|(i, a)| *a > 0 && *i != offer.info) {
            classes.push("q:stray-coin-attached");
        }
        let (qp, side, qa, sim) = match self.quoted.take() {
            Some(q) => q,
            None => return Verdict::Fail(format!("step {}: swap succeeded with an offer asset that is not in the pair", cx.index)),
        };
        debug_assert!(qp == pair && qa == offer.amount.u128());
        let evs = cx.rec.outcome.events(pr.addr.as_str(), "swap");
        if evs.len() != 1 {
            return Verdict::Fail(format!("step {}: {} swap events for one swap", cx.index, evs.len()));
        }
        let (ret, spread, comm) = match (attr_u128(evs[0], "return_amount"), attr_u128(evs[0], "spread_amount"), attr_u128(evs[0], "commission_amount")) {
            (Some(a), Some(b), Some(c)) => (a, b, c),
            _ => return Verdict::Fail(format!("step {}: swap response lacks return/spread/commission attributes", cx.index)),
        };
        classes.push(if hook { "q:hook" } else { "q:execute" });
        classes.push(match (pr.infos[0].is_native_token(), pr.infos[1].is_native_token()) {
            (true, true) => "k:native/native",
            (false, false) => "k:cw20/cw20",
            _ => "k:native/cw20",
        });
        match sim {
            Err(e) => return Verdict::Fail(format!("step {}: Simulation of {} failed ({}) although the immediately following swap succeeded", cx.index, offer, e)),
            Ok(s) => {
                if (s.return_amount.u128(), s.spread_amount.u128(), s.commission_amount.u128()) != (ret, spread, comm) {
                    return Verdict::Fail(format!(
                        "step {}: Simulation of {} quoted (return {}, spread {}, commission {}) but the immediately following swap produced ({}, {}, {})",
                        cx.index, offer, s.return_amount, s.spread_amount, s.commission_amount, ret, spread, comm
                    ));
                }
            }
        }
        // the actual payout: the ask reserve falls by exactly the net return (commission stays in the pool)
        let ask = &pr.infos[1 - side];
        let d = cx.rec.delta(ask, pr.addr.as_str());
        // (a swap whose designated receiver is the pair itself pays the pair: its balance does not move)
        let to_itself = matches!(cx.intent, Intent::Swap { receiver, .. } if receiver == pr.addr.as_str());
        if to_itself {
            classes.push("q:paid-to-the-pair-itself");
        }
        if d != if to_itself { 0 } else { -(ret as i128) } {
            return Verdict::Fail(format!("step {}: swap reports return {} but the pair's {} balance changed by {}", cx.index, ret, ask, d));
        }
        if ret >= 1 {
            self.nontrivial += 1;
            classes.push("q:paid");
        }
        if self.relations {
            let evs = swap_events(w, cx.rec, cx.intent, pair);
            if let Some(e) = evs.first() {
                if let Err(why) = c06_relations(e.x, e.y, e.a, pr.commission, ret, spread, comm) {
                    return Verdict::Fail(format!(
                        "step {}: swap of {} against reserves ({}, {}) at commission {}e-18 produced ({}, {}, {}): {}", cx.index, e.a, e.x, e.y, pr.commission, ret, spread, comm, why));
                }
            }
        }
        Verdict::Pass
    }
    fn nontrivial(&self) -> bool {
        self.nontrivial > 0
    }
}

// ------------------------------------------------------------------------------------------------
// C12 (b): reverse simulation against the documented closed form

pub fn judge_reverse(x: u128, y: u128, ask: u128, c: u128, offer: u128) -> Result<&'static str, String> {
    let e = Nat::e18();
    if c >= crate::gen::E18 {
        return Ok("b:skipped-D<=0");
    }
    let dd = n(crate::gen::E18 - c);
    let dn = match n(y).mul(&dd).checked_sub(&n(ask).mul(&e)) {
        Some(v) if !v.is_zero() => v,
        _ => return Ok("b:skipped-D<=0"),
    };
    let xy_dd = n(x).mul(&n(y)).mul(&dd);
    // offer <= F  <=>  (offer + x) * Dn <= x*y*Dd
    if n(offer).add(&n(x)).mul(&dn) > xy_dd {
        return Err(format!("ReverseSimulation(ask {}) on reserves (offer side {}, ask side {}) at commission {}e-18 returned {} which is ABOVE the closed form x*y/(y - ask/(1-c)) - x", ask, x, y, c, offer));
    }
    // offer >= F - B  <=>  (offer + x + 1) * K >= x*y*Dd*E,  K = Dn*E + (ask+E)*Dd
    let k = dn.mul(&e).add(&n(ask).add(&e).mul(&dd));
    if n(offer).add(&n(x)).add(&Nat::one()).mul(&k) < xy_dd.mul(&e) {
        return Err(format!("ReverseSimulation(ask {}) on reserves (offer side {}, ask side {}) at commission {}e-18 returned {} which is below the closed form by more than its rounding bound", ask, x, y, c, offer));
    }
    Ok("b:within-bounds")
}

#[derive(Default)]
pub struct ReverseOracle {
    nontrivial: u64,
}

impl StepOracle for ReverseOracle {
    fn on_step(&mut self, cx: &mut StepCtx, classes: &mut Vec<&'static str>) -> Verdict {
        let w = &*cx.world;
        let mut s = Src::new(cx.extra);
        let p = s.idx(w.pairs.len());
        let pr = &w.pairs[p];
        let (r0, r1, _) = w.pool(p);
        for ask_side in 0..2 {
            let (x, y) = if ask_side == 0 { (r1, r0) } else { (r0, r1) };
            // asks from 1 to beyond what the pool can pay
            let deliverable = n(y).mul(&n(crate::gen::E18 - pr.commission.min(crate::gen::E18))).div(&Nat::e18()).to_u128().unwrap_or(0);
            let asks = [
                1u128,
                frac(&mut s, y).max(1),
                deliverable.saturating_sub(s.below(3) as u128),
                deliverable.saturating_add(1 + s.below(3) as u128),
                y / 2 + 1,
                y.saturating_add(s.below(5) as u128),
            ];
            for ask in asks {
                let q: Result<ReverseSimulationResponse, String> =
                    w.query(pr.addr.as_str(), &PairQuery::ReverseSimulation { ask_asset: Asset { info: pr.infos[ask_side].clone(), amount: Uint128::new(ask) } });
                match q {
                    Err(_) => classes.push("b:query-rejected"),
                    Ok(r) => match judge_reverse(x, y, ask, pr.commission, r.offer_amount.u128()) {
                        Ok(c) => {
                            classes.push(c);
                            if c == "b:within-bounds" && ask >= 1 && pr.commission > 0 {
                                self.nontrivial += 1;
                            }
                        }
                        Err(m) => return Verdict::Fail(format!("after step {}: pair{}: {}", cx.index, p, m)),
                    },
                }
            }
        }
        Verdict::Pass
    }
    fn nontrivial(&self) -> bool {
        self.nontrivial > 0
    }
}

// ------------------------------------------------------------------------------------------------
// C12 (c): router simulations equal the hop-by-hop fold of the pair queries

fn fold_forward(w: &World, ops: &[SwapOperation], amount: u128) -> Result<u128, String> {
    if ops.is_empty() {
        return Err("empty".into());
    }
    let mut cur = amount;
    for op in ops {
        let SwapOperation::HaloSwap { offer_asset_info, ask_asset_info } = op;
        let p = pair_by_assets(w, offer_asset_info, ask_asset_info).ok_or("no such pair")?;
        let r: SimulationResponse = w.query(w.pairs[p].addr.as_str(), &PairQuery::Simulation { offer_asset: Asset { info: offer_asset_info.clone(), amount: Uint128::new(cur) } })?;
        cur = r.return_amount.u128();
    }
    Ok(cur)
}
fn fold_reverse(w: &World, ops: &[SwapOperation], amount: u128) -> Result<u128, String> {
    if ops.is_empty() {
        return Err("empty".into());
    }
    let mut cur = amount;
    for op in ops.iter().rev() {
        let SwapOperation::HaloSwap { offer_asset_info, ask_asset_info } = op;
        let p = pair_by_assets(w, offer_asset_info, ask_asset_info).ok_or("no such pair")?;
        let r: ReverseSimulationResponse = w.query(w.pairs[p].addr.as_str(), &PairQuery::ReverseSimulation { ask_asset: Asset { info: ask_asset_info.clone(), amount: Uint128::new(cur) } })?;
        cur = r.offer_amount.u128();
    }
    Ok(cur)
}

#[derive(Default)]
pub struct RouterSimOracle {
    nontrivial: u64,
}

impl StepOracle for RouterSimOracle {
    fn on_step(&mut self, cx: &mut StepCtx, classes: &mut Vec<&'static str>) -> Verdict {
        let w = &*cx.world;
        let mut s = Src::new(cx.extra);
        let distinct = s_bool(&mut s);
        let hops = gen_route_ops(w, &mut s, distinct);
        let mut ops = route_operations(w, &hops);
        // occasionally a hop over assets that have no pair, or an empty route
        match s.weighted(&[12, 1, 1]) {
            1 => {
                let all = w.all_assets();
                let a = w.asset_info(all[s.idx(all.len())]);
                let b = w.asset_info(all[s.idx(all.len())]);
                let at = s.idx(ops.len() + 1);
                ops.insert(at, SwapOperation::HaloSwap { offer_asset_info: a, ask_asset_info: b });
            }
            2 => ops.clear(),
            _ => {}
        }
        let (r0, r1, _) = w.pool(hops[0].0);
        let base = if hops[0].1 == 0 { r0 } else { r1 };
        let amount = match s.weighted(&[6, 1, 1]) {
            0 => frac(&mut s, base.saturating_mul(2).max(8)).max(1),
            1 => 1,
            _ => s.bits_u128(100),
        };
        classes.push(match ops.len() {
            0 => "c:0-hops",
            1 => "c:1-hop",
            2 => "c:2-hops",
            3 => "c:3-hops",
            _ => "c:4+-hops",
        });
        let router_fwd: Result<SimulateSwapOperationsResponse, String> = w.query(w.router.as_str(), &RouterQuery::SimulateSwapOperations { offer_amount: Uint128::new(amount), operations: ops.clone() });
        let fold = fold_forward(w, &ops, amount);
        match (&router_fwd, &fold) {
            (Ok(r), Ok(f)) => {
                if r.amount.u128() != *f {
                    return Verdict::Fail(format!("after step {}: SimulateSwapOperations({} through {:?}) = {} but the hop-by-hop fold of the pairs' Simulation queries gives {}", cx.index, amount, ops, r.amount, f));
                }
                classes.push("c:forward-agree");
                if ops.len() >= 2 {
                    self.nontrivial += 1;
                }
            }
            (Err(_), Err(_)) => classes.push("c:forward-both-fail"),
            (Ok(r), Err(e)) => return Verdict::Fail(format!("after step {}: SimulateSwapOperations({} through {:?}) returned {} although the fold of pair queries fails ({})", cx.index, amount, ops, r.amount, e)),
            (Err(e), Ok(f)) => return Verdict::Fail(format!("after step {}: SimulateSwapOperations({} through {:?}) failed ({}) although the fold of pair queries gives {}", cx.index, amount, ops, e, f)),
        }
        // reverse: ask amounts relative to the last hop's ask reserve
        let ask_amount = if let Some(&(lp, ls)) = hops.last() {
            let (a0, a1, _) = w.pool(lp);
            let y = if ls == 0 { a1 } else { a0 };
            match s.weighted(&[6, 1, 1]) {
                0 => frac(&mut s, y).max(1),
                1 => 1,
                _ => y.saturating_add(s.below(3) as u128),
            }
        } else {
            1
        };
        let router_rev: Result<SimulateSwapOperationsResponse, String> = w.query(w.router.as_str(), &RouterQuery::ReverseSimulateSwapOperations { ask_amount: Uint128::new(ask_amount), operations: ops.clone() });
        let fold = fold_reverse(w, &ops, ask_amount);
        match (&router_rev, &fold) {
            (Ok(r), Ok(f)) => {
                if r.amount.u128() != *f {
                    return Verdict::Fail(format!("after step {}: ReverseSimulateSwapOperations({} through {:?}) = {} but the reverse fold of the pairs' ReverseSimulation queries gives {}", cx.index, ask_amount, ops, r.amount, f));
                }
                classes.push("c:reverse-agree");
            }
            (Err(_), Err(_)) => classes.push("c:reverse-both-fail"),
            (Ok(r), Err(e)) => return Verdict::Fail(format!("after step {}: ReverseSimulateSwapOperations({} through {:?}) returned {} although the fold fails ({})", cx.index, ask_amount, ops, r.amount, e)),
            (Err(e), Ok(f)) => return Verdict::Fail(format!("after step {}: ReverseSimulateSwapOperations({} through {:?}) failed ({}) although the fold gives {}", cx.index, ask_amount, ops, e, f)),
        }
        Verdict::Pass
    }
    fn nontrivial(&self) -> bool {
        self.nontrivial > 0
    }
}

fn s_bool(s: &mut Src) -> bool {
    s.bool()
}
