//! C16 — Factory registry: one pair per unordered asset set, consistent with the pair (DESIGN.md C16).
use crate::engine::*;
use crate::props::registry::*;
use crate::world::*;
use haloswap::asset::AssetInfo;
use serde_json::{json, Value};

fn raw_id(a: &AssetInfo) -> Vec<u8> {
    match a {
        AssetInfo::NativeToken { denom } => denom.as_bytes().to_vec(),
        AssetInfo::Token { contract_addr } => format!("\u{1}{}", contract_addr).into_bytes(), // only native/native sets can collide by concatenation
    }
}
/// do two distinct sets concatenate (sorted) to the same bytes?
fn concat_collides(a: (&AssetInfo, &AssetInfo), b: (&AssetInfo, &AssetInfo)) -> bool {
    let cat = |x: &AssetInfo, y: &AssetInfo| {
        let (mut p, mut q) = (raw_id(x), raw_id(y));
        if p > q {
            std::mem::swap(&mut p, &mut q);
        }
        p.extend(q);
        p
    };
    set_key(a.0, a.1) != set_key(b.0, b.1) && cat(a.0, a.1) == cat(b.0, b.1)
}

#[derive(serde::Serialize, serde::Deserialize, Clone, Debug)]
pub struct CreateOp {
    pub sender: String,
    pub assets: [AssetInfo; 2],
    pub requirements: haloswap::asset::CreatePairRequirements,
    /// commission atomics as a decimal string
    pub commission: Option<String>,
    pub lp: haloswap::asset::LPTokenInfo,
    /// Some((denom, decimals)): this operation is not a creation but the owner's (re-)registration of a native
    /// denom's decimals; all other fields are then ignored
    #[serde(default)]
    pub register: Option<(String, u8)>,
    /// Some(pair address): this operation is the owner's MigratePair of a registered pair (to the current
    /// pair code); all other fields are then ignored
    #[serde(default)]
    pub migrate: Option<String>,
}

fn decode(fw: &FactoryWorld, chunk: &[u64]) -> CreateOp {
    let mut o = Src::new(chunk);
    let uni = fw.universe(true);
    let valid_n = fw.w.natives.len() + fw.w.tokens.len();
    let kind = o.weighted(&[10, 2, 1, 2, 1, 2, 1, 1]);
    if kind == 6 {
        // the owner migrates a registered pair to the current pair code: the registry must not change
        let addrs: Vec<String> = fw.model.pairs.values().map(|m| m.addr.clone()).collect();
        if !addrs.is_empty() {
            let a = addrs[o.idx(addrs.len())].clone();
            let d = fw.w.natives[0].clone();
            return CreateOp {
                sender: fw.w.owner.to_string(),
                assets: [AssetInfo::NativeToken { denom: d.clone() }, AssetInfo::NativeToken { denom: d }],
                requirements: haloswap::asset::CreatePairRequirements { whitelist: vec![], first_asset_minimum: cosmwasm_std::Uint128::zero(), second_asset_minimum: cosmwasm_std::Uint128::zero() },
                commission: None,
                lp: haloswap::asset::LPTokenInfo { lp_token_name: "halo-lp".into(), lp_token_symbol: "HLP".into(), lp_token_decimals: None },
                register: None,
                migrate: Some(a),
            };
        }
    }
    if kind == 5 {
        // the owner re-registers a registered denom with other decimals: pairs created afterwards must
        // record the value registered at THEIR creation
        let regs: Vec<String> = fw.model.denoms.keys().cloned().collect();
        if !regs.is_empty() {
            let d = regs[o.idx(regs.len())].clone();
            return CreateOp {
                sender: fw.w.owner.to_string(),
                assets: [AssetInfo::NativeToken { denom: d.clone() }, AssetInfo::NativeToken { denom: d.clone() }],
                requirements: haloswap::asset::CreatePairRequirements { whitelist: vec![], first_asset_minimum: cosmwasm_std::Uint128::zero(), second_asset_minimum: cosmwasm_std::Uint128::zero() },
                commission: None,
                lp: haloswap::asset::LPTokenInfo { lp_token_name: "halo-lp".into(), lp_token_symbol: "HLP".into(), lp_token_decimals: None },
                register: Some((d, o.below(19) as u8)),
                migrate: None,
            };
        }
    }
    let existing: Vec<[AssetInfo; 2]> = fw.model.pairs.values().map(|m| m.infos.clone()).collect();
    let (mut a, mut b) = match kind {
        1 if !existing.is_empty() => {
            let e = &existing[o.idx(existing.len())];
            (e[0].clone(), e[1].clone())
        }
        2 => {
            let x = uni[o.idx(valid_n)].clone();
            (x.clone(), x)
        }
        3 => (uni[o.idx(uni.len())].clone(), uni[valid_n + o.idx(uni.len() - valid_n)].clone()),
        // a live cw20 contract named by another spelling of its address (addresses are case-insensitive in
        // their canonical form), next to itself or to another valid asset
        7 if !fw.w.tokens.is_empty() => {
            let t = fw.w.tokens[o.idx(fw.w.tokens.len())].addr.to_string();
            let other = if o.bool() { AssetInfo::Token { contract_addr: t.clone() } } else { uni[o.idx(valid_n)].clone() };
            (other, AssetInfo::Token { contract_addr: t.to_uppercase() })
        }
        _ => (uni[o.idx(valid_n)].clone(), uni[o.idx(valid_n)].clone()),
    };
    if o.bool() {
        std::mem::swap(&mut a, &mut b);
    }
    let sender = if kind == 4 { fw.w.actors[0].to_string() } else { fw.w.owner.to_string() };
    let requirements = gen_requirements(&mut o, &fw.w);
    let commission = gen_commission(&mut o).map(|c| c.to_string());
    let (lp, _) = gen_lp_info(&mut o);
    CreateOp { sender, assets: [a, b], requirements, commission, lp, register: None, migrate: None }
}

fn play(cfg: &WorldCfg, next: &mut dyn FnMut(&FactoryWorld, usize) -> Option<CreateOp>, want_desc: bool, key: u64) -> CaseResult {
    let mut fw = FactoryWorld::build(cfg);
    let mut classes: Vec<&'static str> = vec![];
    let mut log: Vec<Value> = vec![];
    let mut concrete: Vec<CreateOp> = vec![];
    let mut created = 0usize;
    let mut prefix_sharing = false;
    let mut verdict = Verdict::Pass;
    let mut idx = 0usize;
    while let Some(op) = next(&fw, idx) {
        if let Some(addr) = op.migrate.clone() {
            if want_desc {
                concrete.push(op.clone());
            }
            let code = fw.w.codes.pair;
            // (every third such operation migrates the factory itself too, and uses the second pair code id)
            let third = idx % 3 == 0;
            let code = if third { fw.w.codes.pair_alt } else { code };
            if third {
                let (f, c) = (fw.w.factory.to_string(), fw.w.codes.factory);
                let rf = fw.w.exec(Step { sender: fw.w.factory_admin.to_string(), call: Call::Migrate { contract: f, code_id: c }, funds: vec![] });
                if rf.outcome.is_ok() {
                    classes.push("adm:factory-migrated");
                }
            }
            let rec = fw.w.exec(Step { sender: fw.w.owner.to_string(), call: Call::Factory { msg: haloswap::factory::ExecuteMsg::MigratePair { contract: addr.clone(), code_id: Some(code) } }, funds: vec![] });
            if want_desc {
                log.push(json!({"migrate": addr, "ok": rec.outcome.is_ok()}));
            }
            idx += 1;
            if rec.outcome.is_ok() {
                classes.push("adm:pair-migrated");
                if let Err(m) = fw.check_registry(false) {
                    verdict = Verdict::Fail(format!("after op {} (MigratePair of {}): {}", idx - 1, addr, m));
                    break;
                }
            }
            continue;
        }
        if let Some((denom, decimals)) = op.register.clone() {
            if want_desc {
                concrete.push(op.clone());
            }
            let rec = fw.w.exec(Step {
                sender: fw.w.owner.to_string(),
                call: Call::Factory { msg: haloswap::factory::ExecuteMsg::AddNativeTokenDecimals { denom: denom.clone(), decimals } },
                funds: vec![],
            });
            if want_desc {
                log.push(json!({"register": denom, "decimals": decimals, "ok": rec.outcome.is_ok()}));
            }
            idx += 1;
            if rec.outcome.is_ok() {
                classes.push("reg:re-registration");
                fw.model.denoms.insert(denom.clone(), decimals);
                for m in fw.model.pairs.values_mut() {
                    for i in 0..2 {
                        if m.infos[i] == (AssetInfo::NativeToken { denom: denom.clone() }) {
                            m.decimals[i] = decimals;
                        }
                    }
                }
                if let Err(m) = fw.check_registry(false) {
                    verdict = Verdict::Fail(format!("after op {} (re-registered {} with {} decimals): {}", idx - 1, denom, decimals, m));
                    break;
                }
            } else if !rec.state_unchanged() {
                verdict = Verdict::Fail(format!("op {}: refused AddNativeTokenDecimals({}, {}) changed chain state", idx - 1, denom, decimals));
                break;
            }
            continue;
        }
        let [a, b] = op.assets.clone();
        let commission: Option<u128> = op.commission.as_ref().and_then(|c| c.parse().ok());
        let existing: Vec<[AssetInfo; 2]> = fw.model.pairs.values().map(|m| m.infos.clone()).collect();
        let k = set_key(&a, &b);
        let registered_before = fw.model.pairs.contains_key(&k);
        if existing.iter().any(|e| concat_collides((&e[0], &e[1]), (&a, &b))) {
            classes.push("col:set-colliding-by-concatenation-attempted");
        }
        let (da, db) = (fw.true_decimals(&a), fw.true_decimals(&b));
        if want_desc {
            concrete.push(op.clone());
        }
        let rec = fw.create_pair(&op.sender, [a.clone(), b.clone()], op.requirements.clone(), commission, op.lp.clone());
        if want_desc {
            log.push(json!({"create": [a.to_string(), b.to_string()], "sender": op.sender, "commission": op.commission, "result": if rec.outcome.is_ok() { "ok".to_string() } else { rec.outcome.err_text().chars().take(120).collect() }}));
        }
        let this = idx;
        idx += 1;
        if !rec.outcome.is_ok() {
            classes.push("r:creation-refused");
            if registered_before {
                classes.push("r:duplicate-refused");
            }
            if a == b {
                classes.push("r:identical-refused");
            }
            if [&a, &b].iter().any(|x| matches!(x, AssetInfo::Token { contract_addr } if *contract_addr != contract_addr.to_lowercase())) {
                classes.push("r:alternative-address-spelling-refused");
            }
            if da.is_none() || db.is_none() {
                classes.push("r:invalid-asset-refused");
            }
            if !rec.state_unchanged() {
                verdict = Verdict::Fail(format!("op {}: refused CreatePair [{}, {}] changed chain state", this, a, b));
                break;
            }
            continue;
        }
        classes.push("r:created");
        // a cw20 asset named by an upper-case spelling of a live token's address: the only thing judged is
        // that such a request never yields a pair of one contract with itself or a second pair for a
        // registered set; whether the spelling is acceptable at all is the code's business, and a history
        // in which it was accepted is not followed further (the model knows one spelling per asset)
        let norm = |x: &AssetInfo| match x {
            AssetInfo::Token { contract_addr } if fw.w.tokens.iter().any(|t| t.addr.as_str() == contract_addr.to_lowercase()) => AssetInfo::Token { contract_addr: contract_addr.to_lowercase() },
            o => o.clone(),
        };
        let (na, nb) = (norm(&a), norm(&b));
        if na != a || nb != b {
            if na == nb {
                verdict = Verdict::Fail(format!("op {}: CreatePair [{}, {}] succeeded although both assets are the same cw20 contract (the two spellings resolve to one address)", this, a, b));
            } else if fw.model.pairs.contains_key(&set_key(&na, &nb)) {
                verdict = Verdict::Fail(format!("op {}: CreatePair [{}, {}] succeeded although the set [{}, {}] it resolves to was already registered", this, a, b, na, nb));
            } else {
                classes.push("x:alternative-address-spelling-accepted");
            }
            break;
        }
        // creation rules (only-if)
        let mut why = None;
        if registered_before {
            why = Some("the set was already registered".to_string());
        } else if a == b {
            why = Some("both assets are identical".to_string());
        } else if da.is_none() || db.is_none() {
            why = Some(format!("{} is not a registered denom or live cw20 contract", if da.is_none() { &a } else { &b }));
        } else if commission.map(|c| c > crate::gen::E18).unwrap_or(false) {
            why = Some("the commission rate exceeds 100%".to_string());
        }
        if let Some(wy) = why {
            verdict = Verdict::Fail(format!("op {}: CreatePair [{}, {}] succeeded although {}", this, a, b, wy));
            break;
        }
        let addr = match &rec.outcome {
            Outcome::Ok { attrs } => attrs.iter().flat_map(|(_, a)| a.iter()).find(|(k, _)| k == "pair_contract_addr").map(|(_, v)| v.clone()),
            _ => None,
        };
        let addr = match addr {
            Some(a) => a,
            None => {
                verdict = Verdict::Fail(format!("op {}: CreatePair succeeded without reporting pair_contract_addr", this));
                break;
            }
        };
        if fw.model.pairs.keys().any(|(x, y)| {
            let shares = |p: &str, q: &str| p.len() > 2 && q.len() > 2 && (p[2..].starts_with(&q[2..]) || q[2..].starts_with(&p[2..])) && p != q;
            [x, y].iter().any(|e| [&k.0, &k.1].iter().any(|f| shares(e, f)))
        }) {
            prefix_sharing = true;
        }
        fw.model.pairs.insert(k, ModelPair { addr, infos: [a.clone(), b.clone()], decimals: [da.unwrap(), db.unwrap()], requirements: op.requirements.clone(), commission: commission.unwrap_or(3_000_000_000_000_000) });
        created += 1;
        if let Err(m) = fw.check_registry(false) {
            verdict = Verdict::Fail(format!("after op {} (created [{}, {}]): {}", this, a, b, m));
            break;
        }
    }
    if matches!(verdict, Verdict::Pass) {
        if let Err(m) = fw.check_registry(true) {
            verdict = Verdict::Fail(format!("at the end of the history: {}", m));
        }
    }
    classes.push(match created {
        0 => "n:0-created",
        1..=2 => "n:1-2-created",
        3..=9 => "n:3-9-created",
        _ => "n:10+-created",
    });
    classes.sort();
    classes.dedup();
    let desc = if want_desc || matches!(verdict, Verdict::Fail(_)) {
        let mut d = json!({"registry": describe_registry(&fw), "ops": log});
        if want_desc {
            d["concrete"] = json!({"cfg": cfg, "creates": concrete});
        }
        Some(d)
    } else {
        None
    };
    CaseResult { verdict, nontrivial: created >= 3 && prefix_sharing, key, classes, desc }
}

fn run(t: &Tape, want_desc: bool) -> CaseResult {
    let mut s = Src::new(&t.head);
    let cfg = gen_factory_cfg(&mut s, 3, 8, true);
    let mut next = |fw: &FactoryWorld, i: usize| t.ops.get(i).map(|c| decode(fw, c));
    play(&cfg, &mut next, want_desc, fnv64(&t.to_bytes()))
}

fn direct(v: &Value) -> Result<CaseResult, String> {
    let cfg: WorldCfg = serde_json::from_value(v.get("cfg").cloned().ok_or("missing cfg")?).map_err(|e| format!("cfg: {e}"))?;
    let ops: Vec<CreateOp> = serde_json::from_value(v.get("creates").cloned().ok_or("missing creates")?).map_err(|e| format!("creates: {e}"))?;
    let mut next = |_: &FactoryWorld, i: usize| ops.get(i).cloned();
    Ok(play(&cfg, &mut next, true, fnv64(v.to_string().as_bytes())))
}

pub fn suites() -> Vec<Suite> {
    vec![crate::props::funcs::suite_pair_key(), Suite {
        name: "registry",
        about: "histories of CreatePair calls over prefix-sharing denoms, cw20 tokens, unregistered denoms and non-token addresses, checked against a reference registry keyed by unordered asset identity (every unordered pair of the asset universe is looked up in both orders after each creation)",
        head_len: FACTORY_HEAD,
        op_len: FACTORY_OP,
        max_ops: 30,
        quick_cases: 20_000,
        thorough_cases: 150_000,
        run,
        direct: Some(direct),
        must_hit: &["r:created", "r:creation-refused", "r:duplicate-refused", "r:identical-refused", "r:invalid-asset-refused", "col:set-colliding-by-concatenation-attempted", "n:3-9-created", "n:10+-created", "reg:re-registration"],
    }, Suite {
        // the pairs of the factory-only worlds above are never funded, traded on or migrated while funded: the
        // same agreement - factory record == the pair's description of itself, member for member - is also
        // judged inside trading histories after every successful owner operation (shared with C17)
        name: "live_pairs",
        about: "trading histories with owner administration (re-registration, configuration, pair and factory migration) interleaved; after every successful owner operation the factory's record of EVERY pair equals that pair's own Pair answer member for member (assets, LP token, decimals, requirements, commission)",
        head_len: crate::hist::HEAD_LEN,
        op_len: crate::hist::OP_LEN,
        max_ops: 24,
        quick_cases: 5_000,
        thorough_cases: 100_000,
        run: crate::props::c17::run_live,
        direct: Some(crate::sys::direct_with::<crate::props::c17::C17LiveOracle>),
        must_hit: &["live:owner-operation-judged"],
    }]
}

pub const RULE: &str = "case = factory world (3-8 native denoms drawn from a 17-name pool with heavy prefix sharing (three names with upper-case letters), in 3/4 of the worlds containing the four splits of one concatenation 'abc|defg' = 'abcd|efg' = 'ab|cdefg' = 'abcde|fg'; 1/6 of the denoms unregistered; 0-3 cw20 tokens; a user address, the factory, a non-existent address and a contract whose TokenInfo answer has no `decimals` member posing as tokens; live tokens are sometimes named by the upper-case spelling of their address) + history of <= 30 CreatePair calls (fresh sets, duplicates in either order, identical assets, invalid assets, non-owner sender; interleaved re-registrations of a registered denom's decimals and migrations of registered pairs by the owner; commission absent / in [0,1] / 1 / above 1; whitelist and minimum settings; valid and invalid LP token metadata); after every successful creation every unordered pair of valid assets, and at the end also invalid ones, is looked up in both orders: created sets must resolve to their own pair with a record equal to the pair's self-description and to the creation arguments and true decimals, never-created sets must resolve to nothing, distinct sets never share a pair; refused creations must leave the chain byte-identical; non-trivial = >= 3 successful creations including two sets that share a denom prefix; distinct = hash of the tape Suite live_pairs (shared with C17): trading histories with owner administration interleaved; after every successful owner operation the factory's record of every pair equals that pair's own Pair answer member for member";
pub const ASSUMPTIONS: &[&str] = &["cw-multi-test chain model (MockApi canonical addresses are fixed-length)", "'creation succeeds only if ...' is asserted as stated (only-if); that a valid fresh set CAN be created is observed through the aliasing checks, not demanded"];
