//! C15 — Provision succeeds only within the caller's slippage tolerance.
use crate::engine::Suite;

pub fn suites() -> Vec<Suite> {
    let mut v = vec![];
    if cfg!(feature = "d-slip") {
        v.push(super::guards::suite_c15());
    }
    v.extend(sys_suites());
    v
}
pub const RULE: &str = "function level: case = (d0, d1, r0, r1, tolerance?) with log-uniform 128-bit amounts (2.5% zeros for the abort paths), tolerances from [0,1] with up to 18 digits, above 1 and absent, near-limit constructions d_i = floor(r_i*d_j/(r_j*(1-t))) + {-2..2} on either side, and balanced deposits perturbed by 0..2 units; non-trivial = the guard gave a verdict AND (deposit unbalanced OR decided within 10^-12 relative distance of the limit); distinct = hash of the five inputs. system level: see suite descriptions";
pub const ASSUMPTIONS: &[&str] = &[
    "aborts (zero deposit or reserve in a ratio) are rejections, not guard verdicts",
];

// ---- system level --------------------------------------------------------------------------------
use crate::engine::*;
use crate::hist::*;
use crate::props::guards::{c15_judge, GuardOutcome, SlipCase};
use crate::sys::*;
use crate::world::*;
use haloswap::pair::ExecuteMsg as PairExec;

#[derive(Default)]
pub struct C15Oracle {
    nontrivial: u64,
}

impl StepOracle for C15Oracle {
    fn on_step(&mut self, cx: &mut StepCtx, classes: &mut Vec<&'static str>) -> Verdict {
        let w = &*cx.world;
        let (pair, assets) = match cx.intent {
            Intent::Provide { pair, assets, .. } => (*pair, assets),
            _ => return Verdict::Pass,
        };
        let tol = match &cx.rec.step.call {
            Call::Pair { msg: PairExec::ProvideLiquidity { slippage_tolerance, .. }, .. } => slippage_tolerance.map(|d| d.atomics().u128()),
            _ => None,
        };
        let pr = &w.pairs[pair];
        let d: Vec<Option<u128>> = (0..2).map(|i| assets.iter().find(|a| a.info == pr.infos[i]).map(|a| a.amount.u128())).collect();
        let (d0, d1) = match (d[0], d[1]) {
            (Some(a), Some(b)) => (a, b),
            _ => return Verdict::Pass,
        };
        let (r0, r1, s) = pool_in(w, &cx.rec.before, pair);
        // an unminted pair is judged like any other as soon as both reserves hold something (plain transfers
        // can put reserves there before the first mint); with an empty side there is no reserve ratio
        if tol.is_none() || (s == 0 && (r0 == 0 || r1 == 0)) {
            return Verdict::Pass;
        }
        if s == 0 {
            classes.push("w:first-mint-into-donated-reserves");
        }
        let out = match &cx.rec.outcome {
            Outcome::Ok { .. } => GuardOutcome::Ok,
            o if o.err_text().contains("Max slippage assertion") => GuardOutcome::GuardReject,
            o => GuardOutcome::OtherReject(o.err_text().chars().take(80).collect()),
        };
        classes.push(match &out {
            GuardOutcome::Ok => "w:accepted",
            GuardOutcome::GuardReject => "w:guard-rejected",
            GuardOutcome::OtherReject(_) => "w:other-rejection",
        });
        classes.push(if pr.infos.iter().any(|i| i.is_native_token()) { "k:has-native" } else { "k:cw20-only" });
        // judged on the PRE-transaction reserves: a guard evaluated on reserves that already include
        // the caller's native deposit shows up here
        let k = SlipCase { d: [d0, d1], r: [r0, r1], tol, class: "g:world" };
        match c15_judge(&k, &out) {
            Ok(near) => {
                let unbalanced = crate::nat::n(d0).mul(&crate::nat::n(r1)) != crate::nat::n(d1).mul(&crate::nat::n(r0));
                if !matches!(out, GuardOutcome::OtherReject(_)) && (near || unbalanced) {
                    self.nontrivial += 1;
                }
                if near {
                    classes.push("n:near-limit");
                }
                Verdict::Pass
            }
            Err(m) => Verdict::Fail(format!("step {}: provision into pair{} with pre-transaction reserves ({}, {}): {}", cx.index, pair, r0, r1, m)),
        }
    }
    fn nontrivial(&self) -> bool {
        self.nontrivial > 0
    }
}

fn run_sys(t: &Tape, want_desc: bool) -> CaseResult {
    let mut o = C15Oracle::default();
    let h = run_history(t, &SLIPPAGE, 12, &mut o, want_desc);
    hist_case(t, h)
}

pub fn sys_suites() -> Vec<Suite> {
    vec![Suite {
        name: "world_tolerant_provisions",
        about: "deposits are balanced against the reserves of an earlier state and provided later with a tolerance, after other actors' swaps; the executed verdict is judged by the same implications on the PRE-transaction reserves",
        head_len: HEAD_LEN,
        op_len: OP_LEN,
        max_ops: 30,
        quick_cases: 16_000,
        thorough_cases: 300_000,
        run: run_sys,
        direct: Some(direct_with::<C15Oracle>),
        must_hit: &["w:accepted", "w:guard-rejected", "k:has-native", "k:cw20-only", "n:near-limit"],
    }]
}
