//! C15 — Provision succeeds only within the caller's slippage tolerance.
use crate::engine::Suite;

pub fn suites() -> Vec<Suite> {
    vec![super::guards::suite_c15()]
}
pub const RULE: &str = "function level: case = (d0, d1, r0, r1, tolerance?) with log-uniform 128-bit amounts (2.5% zeros for the abort paths), tolerances from [0,1] with up to 18 digits, above 1 and absent, near-limit constructions d_i = floor(r_i*d_j/(r_j*(1-t))) + {-2..2} on either side, and balanced deposits perturbed by 0..2 units; non-trivial = the guard gave a verdict AND (deposit unbalanced OR decided within 10^-12 relative distance of the limit); distinct = hash of the five inputs. system level: see suite descriptions";
pub const ASSUMPTIONS: &[&str] = &[
    "aborts (zero deposit or reserve in a ratio) are rejections, not guard verdicts",
];
