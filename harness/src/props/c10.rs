//! C10 — A swap that succeeds honours max_spread and belief_price.
use crate::engine::Suite;

pub fn suites() -> Vec<Suite> {
    vec![super::guards::suite_c10()]
}
pub const RULE: &str = "function level: case = (offer, return, spread, belief price?, max spread?, offer decimals, ask decimals) with decimals 0..18 per side, prices from {0, tiny, 1, >1, few-digit, log-uniform}, limits from [0,1] and above 1, and near-limit constructions return = floor((offer'/p)(1-s)) + {-2..2} (belief mode) and spread = floor(total*s) + {-2..2} (ratio mode); non-trivial = the guard gave a verdict (not an overflow/abort) AND (decimals differ OR the verdict was decided within 10^-12 relative distance of the limit); distinct = hash of all seven inputs. system level: see suite descriptions";
pub const ASSUMPTIONS: &[&str] = &[
    "decimals stay within 0..18 per side (the property's quantifier; 10u64.pow overflows from 20, DESIGN F11)",
    "the 0/0 spread ratio (only max_spread given, return+spread = 0) is undefined: counted and skipped (F10)",
    "OverflowError from the checked decimal scaling and aborts (belief price 0) are rejections not attributed to the guard",
];
