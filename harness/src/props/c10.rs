//! C10 — A swap that succeeds honours max_spread and belief_price.
use crate::engine::Suite;

pub fn suites() -> Vec<Suite> {
    let mut v = vec![];
    if cfg!(feature = "d-spread") {
        v.push(super::guards::suite_c10());
    }
    v.extend(sys_suites());
    v
}
pub const RULE: &str = "function level: case = (offer, return, spread, belief price?, max spread?, offer decimals, ask decimals) with decimals 0..18 per side, prices from {0, tiny, 1, >1, few-digit, log-uniform}, limits from [0,1] and above 1, and near-limit constructions return = floor((offer'/p)(1-s)) + {-2..2} (belief mode) and spread = floor(total*s) + {-2..2} (ratio mode); non-trivial = the guard gave a verdict (not an overflow/abort) AND (decimals differ OR the verdict was decided within 10^-12 relative distance of the limit); distinct = hash of all seven inputs. system level: see suite descriptions";
pub const ASSUMPTIONS: &[&str] = &[
    "decimals stay within 0..18 per side (the property's quantifier; 10u64.pow overflows from 20, DESIGN F11)",
    "the 0/0 spread ratio (only max_spread given, return+spread = 0) is undefined: counted and skipped (F10)",
    "OverflowError from the checked decimal scaling and aborts (belief price 0) are rejections not attributed to the guard",
];

// ---- system level --------------------------------------------------------------------------------
use crate::engine::*;
use crate::hist::*;
use crate::props::guards::{c10_judge, GuardOutcome, SpreadCase};
use crate::sys::*;
use crate::world::*;
use haloswap::pair::{Cw20HookMsg, ExecuteMsg as PairExec, SimulationResponse};

/// executed swaps judged by the two implications, with the quote taken in an EARLIER state
#[derive(Default)]
pub struct C10Oracle {
    quoted: Option<Result<SimulationResponse, String>>,
    nontrivial: u64,
}

fn guard_params(step: &Step) -> (Option<u128>, Option<u128>) {
    let conv = |d: &Option<cosmwasm_std::Decimal>| d.map(|x| x.atomics().u128());
    match &step.call {
        Call::Pair { msg: PairExec::Swap { belief_price, max_spread, .. }, .. } => (conv(belief_price), conv(max_spread)),
        Call::Cw20 { msg: cw20::Cw20ExecuteMsg::Send { msg, .. } | cw20::Cw20ExecuteMsg::SendFrom { msg, .. }, .. } => match cosmwasm_std::from_binary::<Cw20HookMsg>(msg) {
            Ok(Cw20HookMsg::Swap { belief_price, max_spread, .. }) => (conv(&belief_price), conv(&max_spread)),
            _ => (None, None),
        },
        _ => (None, None),
    }
}

impl StepOracle for C10Oracle {
    fn pre_step(&mut self, w: &mut World, _step: &Step, intent: &Intent, _gs: &GenState) {
        self.quoted = None;
        if let Intent::Swap { pair, offer, .. } = intent {
            if let Some(side) = w.pairs[*pair].infos.iter().position(|i| *i == offer.info) {
                // what the swap is about to compute in this very state (C12 (a) ties it to execution)
                self.quoted = Some(simulate(w, *pair, side, offer.amount.u128()));
            }
        }
    }
    fn on_step(&mut self, cx: &mut StepCtx, classes: &mut Vec<&'static str>) -> Verdict {
        let w = &*cx.world;
        let (pair, offer, delivered) = match cx.intent {
            Intent::Swap { pair, offer, delivered, .. } => (*pair, offer, delivered),
            _ => return Verdict::Pass,
        };
        let pr = &w.pairs[pair];
        let side = match pr.infos.iter().position(|i| *i == offer.info) {
            Some(s) => s,
            None => return Verdict::Pass,
        };
        let exact_delivery = delivered.iter().filter(|(_, a)| *a > 0).count() == 1 && delivered.iter().any(|(i, a)| *i == offer.info && *a == offer.amount.u128());
        if !exact_delivery {
            return Verdict::Pass;
        }
        let (belief, max_spread) = guard_params(&cx.rec.step);
        let sim = match self.quoted.take() {
            Some(Ok(s)) => s,
            _ => return Verdict::Pass, // pricing itself aborts: not a guard verdict
        };
        let out = match &cx.rec.outcome {
            Outcome::Ok { .. } => GuardOutcome::Ok,
            o if o.err_text().contains("Max spread assertion") => GuardOutcome::GuardReject,
            o => GuardOutcome::OtherReject(o.err_text().chars().take(80).collect()),
        };
        // the pair's decimals in offer / ask order are the TRUE decimals of the two assets
        let od = w.asset_decimals(pr.assets[side]);
        let rd = w.asset_decimals(pr.assets[1 - side]);
        let k = SpreadCase { offer: offer.amount.u128(), ret: sim.return_amount.u128(), spread: sim.spread_amount.u128(), belief, max_spread, od, rd, class: "g:world" };
        classes.push(match (&out, belief.is_some(), max_spread.is_some()) {
            (GuardOutcome::Ok, true, true) => "w:belief+spread accepted",
            (GuardOutcome::GuardReject, true, true) => "w:belief+spread guard-rejected",
            (GuardOutcome::Ok, false, true) => "w:spread-only accepted",
            (GuardOutcome::GuardReject, false, true) => "w:spread-only guard-rejected",
            (GuardOutcome::OtherReject(_), _, _) => "w:other-rejection",
            (GuardOutcome::Ok, _, false) => "w:no-limit accepted",
            (GuardOutcome::GuardReject, _, false) => "w:no-limit guard-rejected",
        });
        classes.push(if od > rd { "dec:offer>ask" } else if od < rd { "dec:offer<ask" } else { "dec:equal" });
        match c10_judge(&k, &out) {
            Ok(near) => {
                if max_spread.is_some() && !matches!(out, GuardOutcome::OtherReject(_)) && (near || od != rd) {
                    self.nontrivial += 1;
                }
                Verdict::Pass
            }
            Err(m) => Verdict::Fail(format!(
                "step {}: swap of {} on pair{} (decimals offer {} / ask {}; priced return {}, spread {}) with belief_price {:?} max_spread {:?} -> {:?}: {}",
                cx.index, offer, pair, od, rd, k.ret, k.spread, belief, max_spread, out, m
            )),
        }
    }
    fn nontrivial(&self) -> bool {
        self.nontrivial > 0
    }
}

fn run_sys(t: &Tape, want_desc: bool) -> CaseResult {
    let mut o = C10Oracle::default();
    let h = run_history(t, &GUARDED, 15, &mut o, want_desc);
    hist_case(t, h)
}

pub fn sys_suites() -> Vec<Suite> {
    vec![Suite {
        name: "world_guarded_swaps",
        about: "orders are quoted by Simulation in one state and executed later with belief_price / max_spread derived from the stale quote, after other traders' swaps; the executed outcome is judged by the same two implications using the pair's true decimals in offer/ask order",
        head_len: HEAD_LEN,
        op_len: OP_LEN,
        max_ops: 30,
        quick_cases: 16_000,
        thorough_cases: 300_000,
        run: run_sys,
        direct: Some(direct_with::<C10Oracle>),
        must_hit: &["w:belief+spread accepted", "w:belief+spread guard-rejected", "w:spread-only accepted", "w:spread-only guard-rejected", "dec:offer>ask", "dec:offer<ask", "dec:equal"],
    }]
}
