//! Function-level checks of `haloswap::formulas::compute_swap`: C01 (reserve product / positivity)
//! and C06 (price less commission within one unit, commission/spread identities, monotonicity).
//! One shared structured generator (DESIGN.md C01 classes 1-6).

use crate::engine::*;
use crate::gen::*;
use crate::known::known_or_fail;
use crate::nat::{n, Nat};
use serde_json::{json, Value};

#[derive(Clone, Debug)]
pub struct SwapCase {
    pub x: u128,
    pub y: u128,
    pub a: u128,
    pub c: u128, // commission atomics, 0..=10^18
    pub class: &'static str,
}

pub const GEN_CLASSES: [&str; 8] =
    ["g:loguniform", "g:residue", "g:window", "g:window-edge", "g:emptying", "g:near-2^256", "g:zeros-ones", "g:window-a1"];

fn fit128(v: &Nat) -> Option<u128> {
    v.to_u128()
}

/// gross output as the code computes it (generator hint only, never used as the oracle)
fn gross_hint(x: u128, y: u128, a: u128) -> Option<Nat> {
    let s = n(x).add(&n(a));
    if s.is_zero() {
        return None;
    }
    let cp = n(x).mul(&n(y)).mul(&Nat::e18());
    let d = n(y).mul(&Nat::e18()).checked_sub(&cp.div(&s))?;
    Some(d.div(&Nat::e18()))
}

pub fn gen_case(s: &mut Src) -> SwapCase {
    let cls = s.weighted(&[8, 3, 4, 2, 2, 2, 1, 2]);
    let (x, y, a): (u128, u128, u128) = match cls {
        0 => (gen128(s), gen128(s), gen128(s)),
        1 | 2 | 3 => {
            // s = a*t + 1  (s ≡ 1 mod a), y = (k*s + r)/a with k ≡ -r (mod a)
            let a = (s.bits_u128(if cls == 1 { 60 } else { 30 })).max(1);
            let sbits = if cls == 1 { s.range(2, 100) } else { s.range(61, 100) } as u32;
            let t = (s.bits_u128(sbits) / a).max(1);
            let sn = n(a).mul(&n(t)).add(&Nat::one());
            let r = match cls {
                1 => match s.below(3) {
                    0 => Nat::zero(),
                    1 => Nat::one(),
                    _ => sn.sub(&Nat::one()),
                },
                2 => {
                    // inside the window: r = s - δ with 1 <= δ < s/10^18
                    let dmax = sn.div(&Nat::e18());
                    if dmax.is_zero() {
                        sn.sub(&Nat::one())
                    } else {
                        let d = n(s.upto_u128(dmax.to_u128().unwrap_or(u128::MAX).saturating_sub(1))).add(&Nat::one());
                        sn.checked_sub(&d).unwrap_or_else(Nat::zero)
                    }
                }
                _ => {
                    // the window boundary: δ = ceil(s/10^18) + {-2..2}
                    let edge = sn.div_ceil(&Nat::e18());
                    let d = edge.add(&n(4)).checked_sub(&n(s.below(5) as u128 + 2)).unwrap_or_else(Nat::one);
                    let d = if d.is_zero() { Nat::one() } else { d };
                    sn.checked_sub(&d).unwrap_or_else(Nat::zero)
                }
            };
            let an = n(a);
            let rm = r.rem(&an);
            let k0 = if rm.is_zero() { Nat::zero() } else { an.sub(&rm) };
            // u bounded so that y stays below 2^128: y ≈ k*s/a
            let room = Nat::pow2(127).div(&sn);
            let u = n(s.upto_u128(room.to_u128().unwrap_or(u128::MAX).min(1 << 20)));
            let k = an.mul(&u).add(&k0);
            let ynum = k.mul(&sn).add(&r);
            let yv = ynum.div(&an);
            let xv = sn.sub(&an);
            match (fit128(&xv), fit128(&yv)) {
                (Some(x), Some(y)) => (x, y, a),
                _ => (fit128(&xv).unwrap_or(1), u128::MAX >> 1, a),
            }
        }
        4 => {
            // a > x*y*10^18 with x*y small
            let x = s.bits_u128(20).max(1);
            let y = s.bits_u128(20).max(1);
            let lim = n(x).mul(&n(y)).mul(&Nat::e18());
            match lim.to_u128() {
                Some(l) if l < u128::MAX / 2 => {
                    let extra = s.bits_u128(100);
                    (x, y, l.saturating_add(extra.saturating_sub(1)).saturating_add(s.below(3) as u128))
                }
                _ => (x, y, u128::MAX),
            }
        }
        5 => {
            // x*y*10^18 straddles 2^256
            let lim = Nat::max256().div(&Nat::e18());
            let x = (s.bits_u128(60) << 68) | s.bits_u128(68) | (1 << 68);
            let yv = lim.div(&n(x));
            let y = yv.to_u128().unwrap_or(u128::MAX);
            let y = match s.below(5) {
                0 => y,
                1 => y.saturating_sub(1),
                2 => y.saturating_add(1),
                3 => y.saturating_sub(s.bits_u128(64)),
                _ => y.saturating_add(s.bits_u128(64)),
            };
            (x, y, gen128(s))
        }
        6 => (s.below(3) as u128, s.below(3) as u128, s.below(3) as u128),
        _ => {
            // a = 1, y = k*s + s - δ: the cheapest way into the window
            let sv = s.bits_u128(66).max(2) + E18;
            let dmax = (sv / E18).max(1);
            let d = 1 + s.upto_u128(dmax); // may land just outside
            let k = s.bits_u128(30);
            let y = n(k).mul(&n(sv)).add(&n(sv)).checked_sub(&n(d)).and_then(|v| v.to_u128()).unwrap_or(sv);
            (sv - 1, y, 1)
        }
    };
    // commission
    let c = if s.chance(1, 5) {
        // rate such that C*g' is within ±1 of a multiple of 10^18
        match gross_hint(x, y, a) {
            Some(g) if !g.is_zero() => {
                let m = n(s.bits_u128(40)).rem(&g.add(&Nat::one()));
                let base = m.mul(&Nat::e18()).div_ceil(&g);
                let adj = base.add(&n(1)).checked_sub(&n(s.below(3) as u128)).unwrap_or_else(Nat::zero);
                adj.to_u128().map(|v| v.min(E18)).unwrap_or(E18)
            }
            _ => gen_rate_atomics(s),
        }
    } else {
        gen_rate_atomics(s)
    };
    SwapCase { x, y, a, c, class: GEN_CLASSES[cls] }
}

pub fn call(x: u128, y: u128, a: u128, c: u128) -> Result<(u128, u128, u128), String> {
    let rate = to_dec(&n(c));
    guarded(|| crate::direct::compute_swap(x, y, a, rate))
}

/// KF-SWAP-ROUNDUP root-cause signature (DESIGN.md C01, F3)
pub fn kf_roundup(x: u128, y: u128, a: u128, ret: u128, comm: u128) -> bool {
    let s = n(x).add(&n(a));
    if s.is_zero() {
        return false;
    }
    let g = n(y).mul(&n(a));
    let (q, r) = g.divrem(&s).unwrap();
    !r.is_zero() && s.sub(&r).mul(&Nat::e18()) < s && n(ret).add(&n(comm)) == q.add(&Nat::one())
}

/// C01 relations on a returned triple. Ok(()) or Err(which relation failed)
pub fn c01_relations(x: u128, y: u128, a: u128, ret: u128) -> Result<(), String> {
    let s = n(x).add(&n(a));
    let g = n(y).mul(&n(a));
    if n(ret).mul(&s) > g {
        return Err(format!("paid out {ret} > ask*offer/(offer_reserve+offer) = {}/{}", g, s));
    }
    match n(y).checked_sub(&n(ret)) {
        None => return Err(format!("paid out {ret} exceeds the ask reserve {y}")),
        Some(rest) => {
            if s.mul(&rest) < n(x).mul(&n(y)) {
                return Err(format!("reserve product fell: ({x}+{a})*({y}-{ret}) < {x}*{y}"));
            }
            if y >= 1 && rest.is_zero() {
                return Err(format!("ask reserve {y} emptied by paying out {ret}"));
            }
        }
    }
    Ok(())
}

fn desc(k: &SwapCase, out: &Result<(u128, u128, u128), String>) -> Value {
    json!({"offer_reserve": k.x.to_string(), "ask_reserve": k.y.to_string(), "offer": k.a.to_string(), "commission_atomics": k.c.to_string(), "class": k.class,
        "result": match out { Ok((r, s, c)) => json!({"return": r.to_string(), "spread": s.to_string(), "commission": c.to_string()}), Err(e) => json!({"abort": e}) }})
}

fn key(k: &SwapCase) -> u64 {
    hash_words(&[k.x, k.y, k.a, k.c])
}

pub fn judge_c01(k: &SwapCase, want_desc: bool) -> CaseResult {
    let out = call(k.x, k.y, k.a, k.c);
    let mut classes = vec![k.class];
    let mut verdict = Verdict::Pass;
    let mut nontrivial = false;
    match &out {
        Err(_) => classes.push("o:abort"),
        Ok((ret, _sp, comm)) => {
            classes.push(if *ret >= 1 { "o:returned-positive" } else { "o:returned-zero" });
            nontrivial = *ret >= 1;
            if let Err(why) = c01_relations(k.x, k.y, k.a, *ret) {
                let what = format!("compute_swap({}, {}, {}, {}e-18) = return {} commission {}: {}", k.x, k.y, k.a, k.c, ret, comm, why);
                if kf_roundup(k.x, k.y, k.a, *ret, *comm) {
                    classes.push("o:known-roundup");
                    verdict = known_or_fail("C01", "KF-SWAP-ROUNDUP", what);
                } else {
                    verdict = Verdict::Fail(what);
                }
            }
        }
    }
    let d = if want_desc || !matches!(verdict, Verdict::Pass) { Some(desc(k, &out)) } else { None };
    CaseResult { verdict, nontrivial, key: key(k), classes, desc: d }
}

/// C06 relations on a returned triple
pub fn c06_relations(x: u128, y: u128, a: u128, c: u128, ret: u128, spread: u128, comm: u128) -> Result<(), String> {
    let s = n(x).add(&n(a));
    let g = n(y).mul(&n(a));
    let e = Nat::e18();
    let rhs = g.mul(&e.sub(&n(c))); // G*(E18-C)
    let se = s.mul(&e);
    if ret >= 1 && n(ret - 1).mul(&se) >= rhs {
        return Err(format!("return {ret} >= g*(1-c) + 1"));
    }
    if n(ret).add(&Nat::one()).mul(&se) <= rhs {
        return Err(format!("return {ret} <= g*(1-c) - 1"));
    }
    let gross = n(ret).add(&n(comm));
    if n(c).mul(&gross).div(&e) != n(comm) {
        return Err(format!("commission {comm} != floor(c*(return+commission)) = {}", n(c).mul(&gross).div(&e)));
    }
    if x == 0 {
        return Err("returned with a zero offer reserve".into());
    }
    let ideal = g.div(&n(x));
    if gross.add(&n(spread)) != ideal {
        return Err(format!("return+commission+spread = {} != floor(a*y/x) = {}", gross.add(&n(spread)), ideal));
    }
    Ok(())
}

pub fn judge_c06(k: &SwapCase, delta: u128, want_desc: bool) -> CaseResult {
    let out = call(k.x, k.y, k.a, k.c);
    let mut classes = vec![k.class];
    let mut verdict = Verdict::Pass;
    let mut nontrivial = false;
    match &out {
        Err(_) => classes.push("o:abort"),
        Ok((ret, sp, comm)) => {
            classes.push(if *ret >= 1 { "o:returned-positive" } else { "o:returned-zero" });
            nontrivial = *ret >= 1 && k.c != 0 && k.c != E18;
            // rounding-boundary statistics
            let s = n(k.x).add(&n(k.a));
            if !s.is_zero() {
                let r = n(k.y).mul(&n(k.a)).rem(&s);
                if r.is_zero() {
                    classes.push("b:G mod s = 0");
                } else if r == Nat::one() {
                    classes.push("b:G mod s = 1");
                } else if r.add(&Nat::one()) == s {
                    classes.push("b:G mod s = s-1");
                }
            }
            let cg = n(k.c).mul(&n(*ret).add(&n(*comm))).rem(&Nat::e18());
            if cg < n(E18 / 1000) || cg > n(E18 - E18 / 1000) {
                classes.push("b:C*g' near a multiple of 10^18");
            }
            if let Err(why) = c06_relations(k.x, k.y, k.a, k.c, *ret, *sp, *comm) {
                verdict = Verdict::Fail(format!(
                    "compute_swap({}, {}, {}, {}e-18) = ({}, {}, {}): {}", k.x, k.y, k.a, k.c, ret, sp, comm, why));
            } else if let Some(a2) = k.a.checked_add(delta) {
                // metamorphic: the output never decreases when the offer grows
                if let Ok((ret2, _, _)) = call(k.x, k.y, a2, k.c) {
                    classes.push("m:monotone-pair-evaluated");
                    if ret2 < *ret {
                        verdict = Verdict::Fail(format!(
                            "compute_swap({}, {}, offer, {}e-18): offer {} -> return {}, larger offer {} -> smaller return {}", k.x, k.y, k.c, k.a, ret, a2, ret2));
                    }
                }
            }
        }
    }
    let d = if want_desc || !matches!(verdict, Verdict::Pass) {
        let mut v = desc(k, &out);
        v["monotonicity_delta"] = json!(delta.to_string());
        Some(v)
    } else {
        None
    };
    CaseResult { verdict, nontrivial, key: key(k), classes, desc: d }
}

fn run_c01(t: &Tape, want_desc: bool) -> CaseResult {
    let mut s = Src::new(&t.head);
    let k = gen_case(&mut s);
    judge_c01(&k, want_desc)
}

fn run_c06(t: &Tape, want_desc: bool) -> CaseResult {
    let mut s = Src::new(&t.head);
    let k = gen_case(&mut s);
    let delta = match s.weighted(&[3, 3, 2]) {
        0 => 1,
        1 => 1 + s.below(1000) as u128,
        _ => s.bits_u128(120),
    };
    judge_c06(&k, delta, want_desc)
}

fn parse_case(v: &Value) -> Result<SwapCase, String> {
    let g = |k: &str| -> Result<u128, String> {
        v.get(k).and_then(|x| x.as_str()).ok_or_else(|| format!("missing {k}"))?.parse::<u128>().map_err(|e| format!("{k}: {e}"))
    };
    Ok(SwapCase { x: g("offer_reserve")?, y: g("ask_reserve")?, a: g("offer")?, c: g("commission_atomics")?, class: "g:direct" })
}

fn direct_c01(v: &Value) -> Result<CaseResult, String> {
    Ok(judge_c01(&parse_case(v)?, true))
}
fn direct_c06(v: &Value) -> Result<CaseResult, String> {
    let d = v.get("monotonicity_delta").and_then(|x| x.as_str()).and_then(|s| s.parse().ok()).unwrap_or(1);
    Ok(judge_c06(&parse_case(v)?, d, true))
}

pub fn suite_c01() -> Suite {
    Suite {
        name: "swap_formula",
        about: "compute_swap on structured 128-bit inputs: payout <= y*a/(x+a), product non-decreasing, ask reserve stays positive",
        head_len: 48,
        op_len: 0,
        max_ops: 0,
        quick_cases: 8_000_000,
        thorough_cases: 120_000_000,
        run: run_c01,
        direct: Some(direct_c01),
        must_hit: &["g:loguniform", "g:residue", "g:window", "g:window-edge", "g:emptying", "g:near-2^256", "g:zeros-ones", "g:window-a1", "o:abort", "o:returned-positive", "o:returned-zero"],
    }
}

pub fn suite_c06() -> Suite {
    Suite {
        name: "swap_formula",
        about: "compute_swap on structured 128-bit inputs: two-sided price bound, commission identity, spread identity, monotonicity in the offer",
        head_len: 56,
        op_len: 0,
        max_ops: 0,
        quick_cases: 8_000_000,
        thorough_cases: 120_000_000,
        run: run_c06,
        direct: Some(direct_c06),
        must_hit: &["g:loguniform", "g:residue", "g:window", "g:window-edge", "g:emptying", "g:near-2^256", "o:abort", "o:returned-positive", "m:monotone-pair-evaluated",
            "b:G mod s = 0", "b:G mod s = 1", "b:G mod s = s-1", "b:C*g' near a multiple of 10^18"],
    }
}
