//! C02 — Swap settlement moves exactly the declared asset and amounts (DESIGN.md C02).

use crate::engine::*;
use crate::hist::*;
use crate::sys::*;
use crate::world::*;
use haloswap::asset::AssetInfo;

#[derive(Default)]
pub struct C02Oracle {
    nontrivial: u64,
}

fn rel_class(hook: bool, named_is_delivered: bool, named_in_pair: bool, amount_equal: bool) -> &'static str {
    match (hook, named_is_delivered, named_in_pair, amount_equal) {
        (false, true, _, true) => "x:execute named=delivered amount=",
        (false, true, _, false) => "x:execute named=delivered amount!=",
        (false, false, true, _) => "x:execute named=other-pair-asset",
        (false, false, false, _) => "x:execute named=outsider",
        (true, true, _, true) => "x:hook named=delivered amount=",
        (true, true, _, false) => "x:hook named=delivered amount!=",
        (true, false, true, _) => "x:hook named=other-pair-asset",
        (true, false, false, _) => "x:hook named=outsider",
    }
}

impl StepOracle for C02Oracle {
    fn on_step(&mut self, cx: &mut StepCtx, classes: &mut Vec<&'static str>) -> Verdict {
        let w = &*cx.world;
        let (pair, hook, offer, delivered, receiver, payer) = match cx.intent {
            Intent::Swap { pair, hook, offer, delivered, receiver, payer } => (*pair, *hook, offer, delivered, receiver, payer),
            _ => return Verdict::Pass,
        };
        let pr = &w.pairs[pair];
        // (the account the offer leaves: the sender, or the owner whose allowance a `SendFrom` spends)
        let trader = payer.clone();
        if *payer != cx.rec.step.sender {
            classes.push("e:delivered-through-SendFrom");
        }
        let delivered_of = |info: &AssetInfo| -> u128 { delivered.iter().filter(|(i, _)| i == info).map(|(_, a)| *a).sum() };
        let named_in_pair = pr.infos.contains(&offer.info);
        let named_is_delivered = delivered.iter().any(|(i, a)| *i == offer.info && *a > 0) || (delivered.is_empty() && false);
        let amount_equal = delivered_of(&offer.info) == offer.amount.u128();
        classes.push(rel_class(hook, named_is_delivered, named_in_pair, amount_equal));
        classes.push(match (pr.infos[0].is_native_token(), pr.infos[1].is_native_token()) {
            (true, true) => "k:native/native",
            (false, false) => "k:cw20/cw20",
            _ => "k:native/cw20",
        });
        if !cx.rec.outcome.is_ok() {
            classes.push("s:rejected");
            if !named_is_delivered || !amount_equal {
                self.nontrivial += 1;
            }
            if !cx.rec.state_unchanged() {
                return Verdict::Fail(format!("step {}: rejected swap changed chain state: {:?}", cx.index, cx.rec.changes.iter().take(3).collect::<Vec<_>>()));
            }
            return Verdict::Pass;
        }
        classes.push("s:settled");
        self.nontrivial += 1;
        // P = the asset the trade was priced as offering
        let side = match pr.infos.iter().position(|i| *i == offer.info) {
            Some(s) => s,
            None => return Verdict::Fail(format!("step {}: swap succeeded although the named offer asset {} is not an asset of the pair", cx.index, offer.info)),
        };
        let ask = &pr.infos[1 - side];
        let o = offer.amount.u128();
        let evs = cx.rec.outcome.events(pr.addr.as_str(), "swap");
        if evs.len() != 1 {
            return Verdict::Fail(format!("step {}: a successful swap produced {} swap events at the pair", cx.index, evs.len()));
        }
        let ev = evs[0];
        let ret = match attr_u128(ev, "return_amount") {
            Some(r) => r,
            None => return Verdict::Fail("swap response has no return_amount".into()),
        };
        if attr(ev, "offer_asset") != Some(offer.info.to_string().as_str()) || attr(ev, "ask_asset") != Some(ask.to_string().as_str()) || attr_u128(ev, "offer_amount") != Some(o) {
            return Verdict::Fail(format!(
                "step {}: swap attributes (offer_asset {:?}, ask_asset {:?}, offer_amount {:?}) disagree with the message (offer {} {}, ask {})",
                cx.index, attr(ev, "offer_asset"), attr(ev, "ask_asset"), attr(ev, "offer_amount"), o, offer.info, ask
            ));
        }
        // delivered by the trader in that same transaction
        if delivered_of(&offer.info) != o {
            return Verdict::Fail(format!(
                "step {}: swap priced as an offer of {} {} succeeded although the trader delivered {} of that asset in this transaction (delivered: {:?})",
                cx.index, o, offer.info, delivered_of(&offer.info), delivered
            ));
        }
        let mut expected = DeltaMap::new();
        for (info, amt) in delivered {
            add_delta(&mut expected, pr.addr.as_str(), info, *amt as i128);
            add_delta(&mut expected, &trader, info, -(*amt as i128));
        }
        add_delta(&mut expected, pr.addr.as_str(), ask, -(ret as i128));
        add_delta(&mut expected, receiver, ask, ret as i128);
        let actual = actual_deltas(cx.rec);
        if let Some(d) = diff_deltas(&expected, &actual) {
            return Verdict::Fail(format!("step {}: swap of {} {} reporting return {} {}: {}", cx.index, o, offer.info, ret, ask, d));
        }
        if let Some((t, d)) = supply_changes(cx.rec).first() {
            return Verdict::Fail(format!("step {}: a swap changed the total supply of {} by {}", cx.index, t, d));
        }
        if *receiver != trader {
            classes.push("s:third-party-receiver");
        }
        Verdict::Pass
    }
    fn nontrivial(&self) -> bool {
        self.nontrivial > 0
    }
}

/// Routed swaps: every swap a pair executes inside a router transaction settles exactly as its own event
/// reports - the pair's reserve of the offered asset rises by the offered amount and the reserve of the
/// other asset falls by the reported return, summed over the pair's swaps of this transaction - and no
/// pair without a swap event moves at all.
#[derive(Default)]
pub struct C02RouteOracle {
    nontrivial: u64,
}

impl StepOracle for C02RouteOracle {
    fn on_step(&mut self, cx: &mut StepCtx, classes: &mut Vec<&'static str>) -> Verdict {
        let w = &*cx.world;
        let (ops, extras) = match cx.intent {
            Intent::Route { ops, extras, .. } => (ops, extras),
            _ => return Verdict::Pass,
        };
        if !cx.rec.outcome.is_ok() {
            classes.push("s:route-rejected");
            if !cx.rec.state_unchanged() {
                return Verdict::Fail(format!("step {}: a rejected route changed chain state", cx.index));
            }
            return Verdict::Pass;
        }
        classes.push("s:route-settled");
        classes.push(if extras.is_empty() { "f:input-only" } else { "f:extra-coin-attached" });
        if snap_holds_any(w, &cx.rec.before, ops) {
            classes.push("f:router-held-route-assets");
        }
        let mut swaps = 0;
        for (p, pr) in w.pairs.iter().enumerate() {
            let raw = cx.rec.outcome.events(pr.addr.as_str(), "swap").len();
            let evs = crate::props::c03::swap_events(w, cx.rec, cx.intent, p);
            if raw != evs.len() {
                classes.push("x:sides-not-reconstructible");
                continue;
            }
            swaps += raw;
            let mut want = [0i128; 2];
            for e in &evs {
                want[e.side] += e.a as i128;
                want[1 - e.side] -= e.ret as i128;
            }
            for k in 0..2 {
                let got = cx.rec.delta(&pr.infos[k], pr.addr.as_str());
                if got != want[k] {
                    return Verdict::Fail(format!(
                        "step {}: routed swaps on pair{} report {:?} (side, offer, return) so its reserve of {} must change by {}, but it changed by {}",
                        cx.index, p, evs.iter().map(|e| (e.side, e.a, e.ret)).collect::<Vec<_>>(), pr.infos[k], want[k], got
                    ));
                }
            }
        }
        if swaps >= 2 {
            classes.push("s:multi-hop");
        }
        if swaps >= 1 {
            self.nontrivial += 1;
        }
        Verdict::Pass
    }
    fn nontrivial(&self) -> bool {
        self.nontrivial > 0
    }
}

fn snap_holds_any(w: &World, snap: &Snapshot, ops: &[haloswap::router::SwapOperation]) -> bool {
    ops.iter().any(|haloswap::router::SwapOperation::HaloSwap { offer_asset_info, ask_asset_info }| {
        snap_balance(snap, offer_asset_info, w.router.as_str()) > 0 || snap_balance(snap, ask_asset_info, w.router.as_str()) > 0
    })
}

fn run_routed(t: &Tape, want_desc: bool) -> CaseResult {
    let mut o = C02RouteOracle::default();
    let h = run_history(t, &ROUTER, 15, &mut o, want_desc);
    hist_case(t, h)
}

fn run(t: &Tape, want_desc: bool) -> CaseResult {
    let mut o = C02Oracle::default();
    let h = run_history(t, &SETTLE, 14, &mut o, want_desc);
    hist_case(t, h)
}

pub fn suites() -> Vec<Suite> {
    vec![Suite {
        name: "settlement",
        about: "swap attempts with adversarial shapes (named asset/amount vs delivered, funds games, receivers) after generated histories; exact ledger settlement or whole-state equality",
        head_len: HEAD_LEN,
        op_len: OP_LEN,
        max_ops: 24,
        quick_cases: 25_000,
        thorough_cases: 400_000,
        run,
        direct: Some(direct_with::<C02Oracle>),
        must_hit: &[
            "x:execute named=delivered amount=", "x:execute named=delivered amount!=", "x:execute named=other-pair-asset", "x:execute named=outsider",
            "x:hook named=delivered amount=", "x:hook named=delivered amount!=", "x:hook named=other-pair-asset", "x:hook named=outsider",
            "k:native/native", "k:native/cw20", "k:cw20/cw20", "s:settled", "s:rejected", "s:third-party-receiver",
        ],
    }, Suite {
        name: "routed_settlement",
        about: "swaps reached through the router (1..4 hops, both entries, stray router balances, a further coin attached to the entry call): per pair, reserve movements equal the pair's own swap reports",
        head_len: HEAD_LEN,
        op_len: OP_LEN,
        max_ops: 24,
        quick_cases: 10_000,
        thorough_cases: 150_000,
        run: run_routed,
        direct: Some(direct_with::<C02RouteOracle>),
        must_hit: &["s:route-settled", "s:route-rejected", "s:multi-hop", "f:extra-coin-attached", "f:router-held-route-assets"],
    }]
}

pub const RULE: &str = "suite settlement: case = world + history (profile 'settlement': swap-heavy, 9/16 of swap messages adversarial: named asset = other pair asset / outsider asset, named amount = delivered±1 / 0 / random, 5/16 funds games: less / more / absent / extra coin / other pair denom attached, receivers none / actor / bystander / fresh); every swap attempt is judged: success => response attributes, 'delivered == named' and the complete ledger diff equal the reference settlement; failure => chain state byte-identical; non-trivial = history with a settled swap or a rejected swap whose named asset or amount differs from what was delivered; distinct = hash of the tape. suite routed_settlement: case = router world + history (profile 'router': 14/36 routes of 1..4 hops, donations to the router, 2/16 of native-entry routes attach a further coin); every successful route is judged per pair against the pair's own swap events; non-trivial = history with a settled routed swap";
pub const ASSUMPTIONS: &[&str] = &[
    "cw-multi-test chain model; cw20-base tokens; receivers are user accounts (actors, bystanders, fresh addresses)",
    "coins attached besides the offer are accounted as the trader's donation to the pair",
];
