//! C07 — Operations never touch third-party balances and conserve token totals (DESIGN.md C07).

use crate::engine::*;
use crate::hist::*;
use crate::sys::*;
use crate::world::*;
use haloswap::asset::AssetInfo;
use haloswap::router::SwapOperation;
use std::collections::{BTreeMap, BTreeSet};

#[derive(Default)]
pub struct C07Oracle {
    nontrivial: u64,
}

fn route_pairs(w: &World, ops: &[SwapOperation]) -> Vec<usize> {
    ops.iter()
        .filter_map(|o| match o {
            SwapOperation::HaloSwap { offer_asset_info, ask_asset_info } => pair_by_assets(w, offer_asset_info, ask_asset_info),
        })
        .collect()
}

impl StepOracle for C07Oracle {
    fn on_step(&mut self, cx: &mut StepCtx, classes: &mut Vec<&'static str>) -> Verdict {
        let w = &*cx.world;
        let st = &cx.rec.step;
        let sender = st.sender.clone();
        // --- who may change ---------------------------------------------------------------------
        let mut allowed: BTreeSet<String> = BTreeSet::new();
        allowed.insert(sender.clone());
        let mut receiver: Option<String> = None;
        let mut addressed_pairs: Vec<usize> = vec![];
        match &st.call {
            Call::Pair { pair, .. } => {
                allowed.insert(w.pairs[*pair].addr.to_string());
                addressed_pairs.push(*pair);
            }
            Call::Cw20 { msg, .. } => {
                // the token contract only keeps the books: its own account is NOT a party to the operation
                if let cw20::Cw20ExecuteMsg::Send { contract, .. } | cw20::Cw20ExecuteMsg::SendFrom { contract, .. } = msg {
                    allowed.insert(contract.clone());
                    if let Some(p) = pair_by_addr(w, contract) {
                        addressed_pairs.push(p);
                    }
                }
            }
            Call::Bank { .. } => {}
            Call::Router { .. } => {
                allowed.insert(w.router.to_string());
            }
            Call::Factory { .. } => {
                allowed.insert(w.factory.to_string());
            }
            Call::Proxy { .. } => {
                allowed.insert(w.proxy.to_string());
            }
            Call::Raw { contract, .. } => {
                allowed.insert(contract.clone());
            }
            Call::Migrate { contract, .. } => {
                allowed.insert(contract.clone());
            }
        }
        match cx.intent {
            Intent::Provide { receiver: r, .. } => receiver = Some(r.clone()),
            Intent::Swap { receiver: r, .. } => receiver = Some(r.clone()),
            Intent::Withdraw { holder, .. } => receiver = Some(holder.clone()),
            Intent::Route { ops, receiver: r, .. } => {
                receiver = Some(r.clone());
                allowed.insert(w.router.to_string());
                for p in route_pairs(w, ops) {
                    allowed.insert(w.pairs[p].addr.to_string());
                    addressed_pairs.push(p);
                }
            }
            Intent::Transfer { to, .. } => receiver = Some(to.clone()),
            _ => {}
        }
        // a hook delivered through `SendFrom` spends an allowance its OWNER granted to the actor: the owner's
        // balance of exactly that token falls by exactly the amount sent - nothing else of the owner may move
        let spent: Option<(String, String, i128)> = match cx.intent {
            Intent::Swap { payer, delivered, .. } if *payer != sender => match delivered.first() {
                Some((AssetInfo::Token { contract_addr }, a)) => Some((payer.clone(), contract_addr.clone(), -(*a as i128))),
                _ => None,
            },
            Intent::Withdraw { pair, amount, owner, .. } if *owner != sender => Some((owner.clone(), w.pairs[*pair].lp.to_string(), -(*amount as i128))),
            _ => None,
        };
        let receiver_is_party = receiver.as_ref().map(|r| allowed.contains(r)).unwrap_or(true);
        if let Some(r) = &receiver {
            allowed.insert(r.clone());
        }
        // --- non-triviality: a bystander with an open allowance toward an addressed pair -----------
        if cx.rec.outcome.is_ok() {
            'outer: for p in &addressed_pairs {
                for info in &w.pairs[*p].infos {
                    if let AssetInfo::Token { contract_addr } = info {
                        for b in &w.bystanders {
                            if snap_allowance(&cx.rec.before, contract_addr, b.as_str(), w.pairs[*p].addr.as_str()) > 0 && snap_cw20(&cx.rec.before, contract_addr, b.as_str()) > 0 {
                                self.nontrivial += 1;
                                classes.push("t:bystander-allowance-open");
                                break 'outer;
                            }
                        }
                    }
                }
            }
        }
        // --- frame, conservation ------------------------------------------------------------------
        let lp_of = |t: &str| pair_by_lp(w, t);
        let mut sums: BTreeMap<String, i128> = BTreeMap::new();
        for c in &cx.rec.changes {
            match c {
                Change::Bank { account, denom, before, after } => {
                    let d = *after as i128 - *before as i128;
                    *sums.entry(format!("native:{}", denom)).or_default() += d;
                    if !allowed.contains(account) {
                        return Verdict::Fail(format!("step {}: {}'s balance of {} changed by {} although it is neither the actor, the addressed contract nor the receiver", cx.index, account, denom, d));
                    }
                    if Some(account) == receiver.as_ref() && !receiver_is_party && d < 0 {
                        return Verdict::Fail(format!("step {}: receiver {}'s balance of {} decreased by {}", cx.index, account, denom, -d));
                    }
                }
                Change::Cw20Balance { token, account, before, after } => {
                    let d = *after as i128 - *before as i128;
                    *sums.entry(format!("cw20:{}", token)).or_default() += d;
                    let is_lp = lp_of(token);
                    let mut ok = allowed.contains(account);
                    let mut is_spent = false;
                    if let Some((o, t, want)) = &spent {
                        if account == o && token == t && d == *want {
                            ok = true;
                            is_spent = true;
                            classes.push("c:allowance-owner-paid-for-SendFrom");
                        }
                    }
                    if let Some(p) = is_lp {
                        // the reserved unit of a first provision lives at the LP token's own address
                        if account == token && d == 1 && matches!(cx.intent, Intent::Provide { pair, .. } if *pair == p) && snap_supply(&cx.rec.before, token) == 0 {
                            ok = true;
                        }
                    }
                    if !ok {
                        return Verdict::Fail(format!("step {}: {}'s balance of token {} changed by {} although it is neither the actor, the addressed contract nor the receiver", cx.index, account, token, d));
                    }
                    // (the owner behind a `SendFrom` may be the designated receiver too: what it pays is judged above)
                    if Some(account) == receiver.as_ref() && !receiver_is_party && d < 0 && !is_spent {
                        return Verdict::Fail(format!("step {}: receiver {}'s balance of token {} decreased by {}", cx.index, account, token, -d));
                    }
                }
                Change::Cw20Allowance { owner, .. } => {
                    // the statement speaks of balances; a consumed allowance always shows up as a balance
                    // change of its owner, which is judged above.  Observed only.
                    if *owner != sender {
                        classes.push("c:third-party-allowance-changed");
                    }
                }
                _ => {}
            }
        }
        let supplies = supply_changes(cx.rec);
        for (tok, d) in &supplies {
            match lp_of(tok) {
                None => return Verdict::Fail(format!("step {}: total supply of non-LP token {} changed by {}", cx.index, tok, d)),
                Some(p) => {
                    let ok = match cx.intent {
                        Intent::Provide { pair, .. } if *pair == p && cx.rec.outcome.is_ok() => *d > 0,
                        Intent::Withdraw { pair, amount, .. } if *pair == p && cx.rec.outcome.is_ok() => *d == -(*amount as i128),
                        // a holder burning its own LP at the token contract is the holder's cw20 operation, not an
                        // operation of the AMM; the statement's supply rule is about the latter
                        Intent::BurnLp { pair, amount } if *pair == p && cx.rec.outcome.is_ok() => *d == -(*amount as i128),
                        _ => false,
                    };
                    if !ok {
                        return Verdict::Fail(format!("step {}: LP supply of pair{} changed by {} in a step that is not a successful provision/withdrawal of that amount on it", cx.index, p, d));
                    }
                    classes.push("c:lp-supply-changed");
                }
            }
        }
        for (asset, sum) in &sums {
            let sup: i128 = asset.strip_prefix("cw20:").map(|t| supplies.iter().filter(|(x, _)| x == t).map(|(_, d)| *d).sum()).unwrap_or(0);
            if *sum != sup {
                return Verdict::Fail(format!("step {}: balances of {} changed by {} in total while its supply changed by {}", cx.index, asset, sum, sup));
            }
        }
        if !sums.is_empty() {
            classes.push("c:balances-moved");
        }
        if receiver.is_some() && !receiver_is_party && cx.rec.outcome.is_ok() {
            classes.push("c:third-party-receiver");
        }
        Verdict::Pass
    }
    fn nontrivial(&self) -> bool {
        self.nontrivial > 0
    }
}

fn run(t: &Tape, want_desc: bool) -> CaseResult {
    let mut o = C07Oracle::default();
    let h = run_history(t, &MIXED, 14, &mut o, want_desc);
    hist_case(t, h)
}
fn run_routes(t: &Tape, want_desc: bool) -> CaseResult {
    let mut o = C07Oracle::default();
    let h = run_history(t, &ROUTES, 15, &mut o, want_desc);
    hist_case(t, h)
}

pub fn suites() -> Vec<Suite> {
    vec![
        Suite {
            name: "ledger",
            about: "mixed histories; after every step the complete ledger diff (all accounts in chain storage) is checked for frame, receiver monotonicity, conservation and LP-supply rules; bystanders hold open allowances toward every pair and the router",
            head_len: HEAD_LEN,
            op_len: OP_LEN,
            max_ops: 30,
            quick_cases: 20_000,
            thorough_cases: 400_000,
            run,
            direct: Some(direct_with::<C07Oracle>),
            must_hit: &["t:bystander-allowance-open", "c:balances-moved", "c:lp-supply-changed", "c:third-party-receiver", "op:provide", "op:withdraw", "op:swap-exec", "op:swap-hook", "op:route", "op:donate", "op:allowance", "op:forged"],
        },
        Suite {
            name: "ledger_routes",
            about: "the same checks on router-heavy histories in worlds with connected pair graphs (up to 5 pairs)",
            head_len: HEAD_LEN,
            op_len: OP_LEN,
            max_ops: 24,
            quick_cases: 8_000,
            thorough_cases: 200_000,
            run: run_routes,
            direct: Some(direct_with::<C07Oracle>),
            must_hit: &["op:route", "c:balances-moved", "c:third-party-receiver"],
        },
    ]
}

pub const RULE: &str = "case = world + history (all operation kinds, every choice of caller / receiver; 2 bystanders hold balances and open allowances toward every pair and the router, allowances are re-randomised mid-history); after EVERY step the complete diff of chain storage is decoded into balance changes of every account: only actor, addressed contract (pair / cw20 Send target / router / factory), route pairs and the receiver may change; a third-party receiver only gains; per denom and per non-LP token the deltas sum to zero and the supply is unchanged; LP supply changes only on a successful provision (by the sum of LP balance changes) or withdrawal (by the burned amount); non-trivial = a successful step addressing a pair toward which a bystander holds a positive allowance and balance; distinct = hash of the tape";
pub const ASSUMPTIONS: &[&str] = &[
    "cw-multi-test chain model; the decoding of its raw storage layout (bank balances, cw20 balance / token_info / allowance keys) is validated against typed queries by the harness self-check",
    "the reserved LP unit minted to the LP token's own address on a first provision is part of the LP-supply accounting",
];
