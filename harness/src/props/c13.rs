//! C13 — Router is a pure pass-through and delivers what it quoted (DESIGN.md C13).
use crate::engine::*;
use crate::hist::*;
use crate::sys::*;
use crate::world::*;
use cosmwasm_std::Uint128;
use haloswap::asset::AssetInfo;
use haloswap::router::{QueryMsg as RouterQuery, SimulateSwapOperationsResponse, SwapOperation};
use std::collections::BTreeSet;

#[derive(Default)]
pub struct C13Oracle {
    quote: Option<Result<u128, String>>,
    router_holds: bool,
    extra_funds: bool,
    nontrivial: u64,
}

fn route_assets(ops: &[SwapOperation]) -> Vec<AssetInfo> {
    let mut v: Vec<AssetInfo> = vec![];
    for SwapOperation::HaloSwap { offer_asset_info, ask_asset_info } in ops {
        for a in [offer_asset_info, ask_asset_info] {
            if !v.contains(a) {
                v.push(a.clone());
            }
        }
    }
    v
}

/// the dangling-output set, computed on asset identities (kind + identifier)
fn dangling(ops: &[SwapOperation]) -> usize {
    let mut set: BTreeSet<String> = BTreeSet::new();
    for SwapOperation::HaloSwap { offer_asset_info, ask_asset_info } in ops {
        set.remove(&asset_key(offer_asset_info));
        set.insert(asset_key(ask_asset_info));
    }
    set.len()
}

impl StepOracle for C13Oracle {
    fn pre_step(&mut self, w: &mut World, _step: &Step, intent: &Intent, _gs: &GenState) {
        self.quote = None;
        self.router_holds = false;
        self.extra_funds = false;
        if let Intent::Route { ops, delivered, extras, .. } = intent {
            let q: Result<SimulateSwapOperationsResponse, String> =
                w.query(w.router.as_str(), &RouterQuery::SimulateSwapOperations { offer_amount: Uint128::new(delivered.1), operations: ops.clone() });
            self.quote = Some(q.map(|r| r.amount.u128()));
            // coins attached besides the input are in the router while the route runs
            self.router_holds = route_assets(ops).iter().any(|a| w.balance(a, w.router.as_str()) > 0 || extras.iter().any(|(e, v)| e == a && *v > 0));
            self.extra_funds = !extras.is_empty();
        }
    }
    fn on_step(&mut self, cx: &mut StepCtx, classes: &mut Vec<&'static str>) -> Verdict {
        let w = &*cx.world;
        let (ops, delivered, receiver) = match cx.intent {
            Intent::Route { ops, delivered, receiver, .. } => (ops, delivered, receiver),
            _ => return Verdict::Pass,
        };
        let ok = cx.rec.outcome.is_ok();
        let sender = cx.rec.step.sender.clone();
        // shape rules
        if ops.is_empty() {
            classes.push("shape:empty");
            return if ok { Verdict::Fail(format!("step {}: an empty route was accepted", cx.index)) } else { Verdict::Pass };
        }
        let dang = dangling(ops);
        if dang > 1 {
            classes.push("shape:multiple-dangling-outputs");
            return if ok { Verdict::Fail(format!("step {}: a route with {} dangling output assets was accepted: {:?}", cx.index, dang, ops)) } else { Verdict::Pass };
        }
        classes.push("shape:single-output");
        if !ok {
            classes.push("r:route-failed");
            return Verdict::Pass;
        }
        // the statement's scope: hops over pairwise distinct pairs, router holding none of the route's assets
        let hop_pairs: Vec<Option<usize>> = ops.iter().map(|SwapOperation::HaloSwap { offer_asset_info, ask_asset_info }| pair_by_assets(w, offer_asset_info, ask_asset_info)).collect();
        let mut seen = BTreeSet::new();
        let distinct = hop_pairs.iter().all(|p| p.map(|x| seen.insert(x)).unwrap_or(false));
        if !distinct {
            classes.push("x:excluded-repeated-pair");
            return Verdict::Pass;
        }
        if self.router_holds {
            classes.push("x:excluded-router-holds-assets");
            return Verdict::Pass;
        }
        if *receiver == w.router.as_str() {
            // proceeds addressed to the router itself stay in the router by definition
            classes.push("x:excluded-router-is-recipient");
            return Verdict::Pass;
        }
        if self.extra_funds {
            // a further coin of a denom the route does not trade: the sender's ledger carries it to the router,
            // which is outside the statement's settlement (only the input is consumed)
            classes.push("x:excluded-extra-funds");
            return Verdict::Pass;
        }
        classes.push("r:route-ok");
        let quote = match self.quote.take() {
            Some(Ok(q)) => q,
            Some(Err(e)) => return Verdict::Fail(format!("step {}: SimulateSwapOperations failed ({}) for a route that then executed successfully", cx.index, e)),
            None => return Verdict::Pass,
        };
        let SwapOperation::HaloSwap { ask_asset_info: final_asset, .. } = ops.last().unwrap();
        let mut expected = DeltaMap::new();
        add_delta(&mut expected, &sender, &delivered.0, -(delivered.1 as i128));
        add_delta(&mut expected, receiver, final_asset, quote as i128);
        // restrict the actual ledger diff to sender, recipient and router
        let actual: DeltaMap = actual_deltas(cx.rec).into_iter().filter(|((acc, _), _)| *acc == sender || acc == receiver || acc == w.router.as_str()).collect();
        if let Some(d) = diff_deltas(&expected, &actual) {
            return Verdict::Fail(format!(
                "step {}: route of {} {} through {} hops quoted {} {} for recipient {}: {}", cx.index, delivered.1, delivered.0, ops.len(), quote, final_asset, receiver, d));
        }
        for a in route_assets(ops) {
            let b = snap_balance(&cx.rec.after, &a, w.router.as_str());
            if b != 0 {
                return Verdict::Fail(format!("step {}: after the route the router still holds {} of {}", cx.index, b, a));
            }
        }
        let kinds: BTreeSet<bool> = route_assets(ops).iter().map(|a| a.is_native_token()).collect();
        classes.push(match ops.len() {
            1 => "hops:1",
            2 => "hops:2",
            3 => "hops:3",
            _ => "hops:4+",
        });
        classes.push(if delivered.0.is_native_token() { "entry:native" } else { "entry:cw20" });
        if kinds.len() == 2 {
            classes.push("mix:native+cw20");
            if ops.len() >= 2 {
                self.nontrivial += 1;
            }
        }
        if *receiver != sender {
            classes.push("to:other");
        }
        Verdict::Pass
    }
    fn nontrivial(&self) -> bool {
        self.nontrivial > 0
    }
}

fn run(t: &Tape, want_desc: bool) -> CaseResult {
    let mut o = C13Oracle::default();
    let h = run_history(t, &ROUTER, 15, &mut o, want_desc);
    hist_case(t, h)
}

pub fn suites() -> Vec<Suite> {
    vec![crate::props::funcs::suite_route_shape(), Suite {
        name: "pass_through",
        about: "routes over distinct pairs executed while the router holds none of the route's assets: recipient growth == SimulateSwapOperations in the pre-state, input fully consumed, router ends at zero, nothing else reaches sender/recipient/router; empty routes and routes with more than one dangling output must be rejected",
        head_len: HEAD_LEN,
        op_len: OP_LEN,
        max_ops: 24,
        quick_cases: 14_000,
        thorough_cases: 300_000,
        run,
        direct: Some(direct_with::<C13Oracle>),
        must_hit: &["shape:empty", "shape:multiple-dangling-outputs", "shape:single-output", "r:route-ok", "r:route-failed", "hops:1", "hops:2", "hops:3", "hops:4+", "entry:native", "entry:cw20", "mix:native+cw20", "to:other", "x:excluded-repeated-pair", "x:excluded-router-holds-assets"],
    }]
}

pub const RULE: &str = "case = world with 2-5 connected pairs + history (profile 'router'); routes are random walks of 1..4 hops (7/8 over pairwise distinct pairs), 3/16 malformed (empty, forked = two hops from one offer asset, a disconnected hop inserted); judged per route: shape rules on asset identities; for successful routes in the statement's scope the ledger diff restricted to {sender, recipient, router} must be exactly {sender: -input, recipient: +quote} with the quote taken from SimulateSwapOperations in the pre-state, and the router must hold 0 of every route asset afterwards; routes revisiting a pair or executed while the router holds a route asset are counted and skipped; non-trivial = a successful in-scope route with >= 2 hops mixing native and cw20 assets; distinct = hash of the tape";
pub const ASSUMPTIONS: &[&str] = &[
    "cw-multi-test chain model; native denoms never spell a contract address (DESIGN F12), so asset identity and display string coincide",
];
