//! C03 — LP share value never decreases over any history (DESIGN.md C03).
//! Also hosts the swap-event reconstruction shared with the system-level half of C01.

use crate::engine::*;
use crate::hist::*;
use crate::known::known_or_fail;
use crate::nat::{n, Nat};
use crate::props::swapf::{c01_relations, kf_roundup};
use crate::sys::*;
use crate::world::*;
use haloswap::asset::AssetInfo;

#[derive(Debug, Clone)]
pub struct SwapEv {
    pub side: usize, // offer side in pair order
    pub x: u128,
    pub y: u128,
    pub a: u128,
    pub ret: u128,
    pub comm: u128,
    pub spread: u128,
}

/// Reconstruct, hop by hop, the (x, y, a, return, commission) of every swap the pair executed in
/// this transaction, from the pair's own swap events and the pre-transaction reserves.
pub fn swap_events(w: &World, rec: &StepRecord, intent: &Intent, p: usize) -> Vec<SwapEv> {
    let pr = &w.pairs[p];
    let evs = rec.outcome.events(pr.addr.as_str(), "swap");
    if evs.is_empty() {
        return vec![];
    }
    let (r0, r1, _) = pool_in(w, &rec.before, p);
    let mut r = [r0, r1];
    let mut out = vec![];
    // The swap event names the offered asset by its display string. When the pair's two assets print
    // identically (a native denom spelled like the cw20 token's address) the string does not identify the
    // side; the sides are then the assignment that explains the movement of the pair's cw20 reserve
    // (which only swaps can move inside this transaction besides the plain transfer of a hook's offer,
    // already part of the swap). No unique assignment = no reconstruction (callers then judge by ledger).
    let ambiguous: Option<Vec<usize>> = if pr.infos[0].to_string() == pr.infos[1].to_string() {
        let tok = if matches!(pr.infos[0], AssetInfo::Token { .. }) { 0 } else { 1 };
        let (a0, a1, _) = pool_in(w, &rec.after, p);
        let actual = [a0, a1][tok] as i128 - [r0, r1][tok] as i128;
        let n = evs.len().min(8);
        let mut fits: Vec<Vec<usize>> = vec![];
        for mask in 0..(1u32 << n) {
            let sides: Vec<usize> = (0..n).map(|i| ((mask >> i) & 1) as usize).collect();
            let mut d: i128 = 0;
            for (i, ev) in evs.iter().take(n).enumerate() {
                let a = attr_u128(ev, "offer_amount").unwrap_or(0) as i128;
                let ret = attr_u128(ev, "return_amount").unwrap_or(0) as i128;
                d += if sides[i] == tok { a } else { -ret };
            }
            if d == actual {
                fits.push(sides);
            }
        }
        if fits.len() != 1 || evs.len() > 8 {
            return vec![];
        }
        Some(fits.remove(0))
    } else {
        None
    };
    for (i, ev) in evs.iter().enumerate() {
        let offer_name = attr(ev, "offer_asset").unwrap_or("");
        let side = match &ambiguous {
            Some(sides) => sides[i],
            None => if pr.infos[0].to_string() == offer_name { 0 } else { 1 },
        };
        let a = attr_u128(ev, "offer_amount").unwrap_or(0);
        let ret = attr_u128(ev, "return_amount").unwrap_or(0);
        let comm = attr_u128(ev, "commission_amount").unwrap_or(0);
        let spread = attr_u128(ev, "spread_amount").unwrap_or(0);
        if i == 0 {
            // coins attached to a direct swap besides the offer are in the pair's balance when it prices
            if let Intent::Swap { pair, hook: false, delivered, .. } = intent {
                if *pair == p {
                    for (info, amt) in delivered {
                        for k in 0..2 {
                            if pr.infos[k] == *info && k != side {
                                r[k] = r[k].saturating_add(*amt);
                            }
                        }
                    }
                }
            }
        }
        out.push(SwapEv { side, x: r[side], y: r[1 - side], a, ret, comm, spread });
        r[side] = r[side].saturating_add(a);
        r[1 - side] = r[1 - side].saturating_sub(ret);
    }
    out
}

/// Some(what) if some swap of this transaction breaks C01's relations and every such swap matches
/// the KF-SWAP-ROUNDUP signature; Err(what) if a breaking swap does not match; Ok(None) if no swap
/// breaks them.
pub fn roundup_analysis(evs: &[SwapEv]) -> Result<Option<String>, String> {
    let mut matched = None;
    for e in evs {
        if let Err(why) = c01_relations(e.x, e.y, e.a, e.ret) {
            let what = format!("swap of {} against reserves ({}, {}) paid {} (+{} commission): {}", e.a, e.x, e.y, e.ret, e.comm, why);
            if kf_roundup(e.x, e.y, e.a, e.ret, e.comm) {
                matched.get_or_insert(what);
            } else {
                return Err(what);
            }
        }
    }
    Ok(matched)
}

pub fn share_value_ok(before: (u128, u128, u128), after: (u128, u128, u128)) -> bool {
    // R0'*R1'*S^2 >= R0*R1*S'^2
    let s2 = n(before.2).mul(&n(before.2));
    let sp2 = n(after.2).mul(&n(after.2));
    let lhs: Nat = n(after.0).mul(&n(after.1)).mul(&s2);
    let rhs: Nat = n(before.0).mul(&n(before.1)).mul(&sp2);
    lhs >= rhs
}

#[derive(Default)]
pub struct C03Oracle {
    provide: Vec<bool>,
    swap: Vec<bool>,
    withdraw: Vec<bool>,
}

impl StepOracle for C03Oracle {
    fn on_step(&mut self, cx: &mut StepCtx, classes: &mut Vec<&'static str>) -> Verdict {
        let w = &*cx.world;
        let np = w.pairs.len();
        self.provide.resize(np, false);
        self.swap.resize(np, false);
        self.withdraw.resize(np, false);
        if cx.rec.outcome.is_ok() {
            match cx.intent {
                Intent::Provide { pair, .. } => self.provide[*pair] = true,
                Intent::Withdraw { pair, .. } => self.withdraw[*pair] = true,
                _ => {}
            }
        } else {
            classes.push("h:rejected-call");
        }
        let mut verdict = Verdict::Pass;
        for p in 0..np {
            let b = pool_in(w, &cx.rec.before, p);
            let a = pool_in(w, &cx.rec.after, p);
            let evs = swap_events(w, cx.rec, cx.intent, p);
            if !evs.is_empty() {
                self.swap[p] = true;
                if matches!(cx.intent, Intent::Route { .. }) {
                    classes.push("h:router-hop");
                }
                if w.pairs[p].commission == 0 {
                    classes.push("h:commission-0-swap");
                }
            }
            if b.2 == 0 {
                continue;
            }
            if b != a {
                classes.push("h:pool-changed");
                let mag = n(b.0).bits().max(n(b.1).bits());
                classes.push(if mag <= 20 { "m:dust" } else if mag <= 64 { "m:<=2^64" } else if mag <= 100 { "m:<=2^100" } else { "m:>2^100" });
            }
            if !share_value_ok(b, a) {
                let what = format!(
                    "step {}: pair{} (reserve0, reserve1, supply) {:?} -> {:?}: reserve0*reserve1/supply^2 decreased",
                    cx.index, p, b, a
                );
                match roundup_analysis(&evs) {
                    Ok(Some(kf)) => {
                        classes.push("o:known-roundup");
                        if matches!(verdict, Verdict::Pass) {
                            verdict = known_or_fail("C03", "KF-SWAP-ROUNDUP", format!("{} [{}]", what, kf));
                        }
                    }
                    Ok(None) => return Verdict::Fail(format!("{} (no swap of this transaction explains it)", what)),
                    Err(e) => return Verdict::Fail(format!("{} [{}]", what, e)),
                }
            }
        }
        if let Intent::Transfer { to, .. } = cx.intent {
            if cx.rec.outcome.is_ok() && pair_by_addr(w, to).is_some() {
                classes.push("h:donation");
            }
        }
        verdict
    }
    fn nontrivial(&self) -> bool {
        (0..self.provide.len()).any(|p| self.provide[p] && self.swap[p] && self.withdraw[p])
    }
}

fn run(t: &Tape, want_desc: bool) -> CaseResult {
    let mut o = C03Oracle::default();
    let h = run_history(t, &MIXED, 14, &mut o, want_desc);
    hist_case(t, h)
}

fn run_hostile(t: &Tape, want_desc: bool) -> CaseResult {
    let mut o = C03Oracle::default();
    let h = run_history(t, &HOSTILE, 14, &mut o, want_desc);
    hist_case(t, h)
}

pub fn suites() -> Vec<Suite> {
    vec![
        Suite {
            name: "history",
            about: "multi-actor histories (all op kinds, adversarial shapes, 1-3 pairs of all kinds); per-step invariant R0*R1/S^2 non-decreasing",
            head_len: HEAD_LEN,
            op_len: OP_LEN,
            max_ops: 40,
            quick_cases: 16_000,
            thorough_cases: 400_000,
            run,
            direct: Some(direct_with::<C03Oracle>),
            must_hit: &["pair:native/native", "pair:native/cw20", "pair:cw20/cw20", "op:provide", "op:withdraw", "op:swap-exec", "op:swap-hook", "op:donate", "op:route", "r:ok", "r:error", "r:abort",
                "h:router-hop", "h:donation", "h:rejected-call", "h:commission-0-swap", "m:dust", "m:<=2^64", "m:<=2^100"],
        },
        Suite {
            name: "history_hostile",
            about: "same invariant on histories biased to extreme magnitudes (reserves and donations up to 2^120, dust pools)",
            head_len: HEAD_LEN,
            op_len: OP_LEN,
            max_ops: 30,
            quick_cases: 8_000,
            thorough_cases: 200_000,
            run: run_hostile,
            direct: Some(direct_with::<C03Oracle>),
            must_hit: &["m:dust", "m:<=2^100", "h:donation"],
        },
    ]
}

pub const RULE: &str = "case = (world configuration, history of <= 40 operations) decoded from a choice tape against the live state: 4 actors + 2 bystanders, 1-3 pairs over native/native, native/cw20, cw20/cw20 with commission from {default, 0, 1e-18, 0.03, 0.5, 1-1e-18, 1, random}, operations provide / withdraw / swap via execute / swap via cw20 hook / donation / LP donation / router route / allowance change / forged internal call / owner administration (decimals re-registration, config update, pair migration), with adversarial message shapes, funds games and surplus coins of the pair's other native denom; after EVERY step and for every pair with positive supply R0'*R1'*S^2 >= R0*R1*S'^2 in exact arithmetic; non-trivial = the history contains a successful provide, a successful swap and a successful withdraw on the same pair; distinct = hash of the tape";
pub const ASSUMPTIONS: &[&str] = &[
    "cw-multi-test 0.16.1 with cw20-base 1.0.0 is the chain model (atomic transactions, bank, token semantics)",
    "reserves and supplies are read from raw chain storage (pair's bank / cw20 balances, LP token_info), not from the contracts' own queries",
    "swap steps whose product decrease is explained, hop by hop, by swaps matching the KF-SWAP-ROUNDUP signature are counted and excluded while listed in KNOWN_FINDINGS.txt",
];
