//! Factory-centred worlds and the reference registry shared by C16, C17 and C19.

use cw_multi_test::Executor as _;
use crate::engine::*;
use crate::gen::{gen_rate_atomics, to_dec, E18};
use crate::nat::n;
use crate::world::*;
use cosmwasm_std::{Addr, Uint128};
use haloswap::asset::{AssetInfo, CreatePairRequirements, LPTokenInfo, PairInfo};
use haloswap::factory::{ExecuteMsg as FactoryExec, NativeTokenDecimalsResponse, PairsResponse, QueryMsg as FactoryQuery};
use serde_json::{json, Value};
use std::collections::BTreeMap;

/// denoms over a tiny alphabet with heavy prefix sharing; the first eight form four splits of the
/// same concatenation ("abc|defg" = "abcd|efg" = "ab|cdefg" = "abcde|fg")
/// (the last three carry upper-case letters, like IBC voucher denoms: registry keys are the exact bytes)
pub const DENOM_POOL: [&str; 17] = ["abc", "defg", "abcd", "efg", "ab", "cdefg", "abcde", "fg", "ua", "uab", "uabc", "b", "ab1", "zzz", "ibc/AB12", "Uab", "ABC"];

pub const FACTORY_HEAD: usize = 40;
pub const FACTORY_OP: usize = 12;

pub fn gen_factory_cfg(s: &mut Src, min_denoms: usize, max_denoms: usize, allow_unregistered: bool) -> WorldCfg {
    let nd = s.range(min_denoms as u64, max_denoms as u64) as usize;
    // choose denoms: start at a random even offset so that collision groups are often included
    let mut denoms: Vec<String> = vec![];
    let mut order: Vec<usize> = (0..DENOM_POOL.len()).collect();
    // monotone shuffle: rotate + optional pair swap
    let rot = s.idx(DENOM_POOL.len());
    order.rotate_left(rot);
    if s.chance(3, 4) {
        // force the classic collision quadruple to the front
        order.retain(|&i| i >= 4);
        let mut front = vec![0, 1, 2, 3];
        front.extend(order);
        order = front;
    }
    for i in order.into_iter().take(nd) {
        denoms.push(DENOM_POOL[i].to_string());
    }
    let nt = s.idx(4);
    // a bank denom may be spelled exactly like a contract address (the denom grammar admits it): one in four
    // worlds with a cw20 token also hold a native denom named like the first token's address. The asset KIND,
    // not the spelling, decides identity, so this denom and that token are different assets everywhere.
    // (Factory-only worlds: the router's route-shape map is outside this domain, DESIGN F12.)
    if nt >= 1 && s.chance(1, 4) {
        denoms.push(FIRST_TOKEN_ADDR.to_string());
    }
    let nd = denoms.len();
    // the factory accepts any u8 for a native denom: one in eight is above 18 (up to 255)
    let native_decimals: Vec<u8> = (0..nd).map(|_| if s.chance(1, 8) { 19 + s.below(237) as u8 } else { s.below(19) as u8 }).collect();
    let unregistered: Vec<usize> = if allow_unregistered { (0..nd).filter(|_| s.chance(1, 6)).collect() } else { vec![] };
    let token_decimals: Vec<u8> = (0..nt).map(|_| s.below(19) as u8).collect();
    WorldCfg { native_decimals, token_decimals, pairs: vec![], n_actors: 2, n_bystanders: 0, initial_balance: 1 << 60, allowance: 0, denoms, unregistered, staged_decimals: vec![], router_allowance: 0, peer_allowance: false, separate_factory_admin: false }
}

pub fn key_of(a: &AssetInfo) -> String {
    match a {
        AssetInfo::NativeToken { denom } => format!("n:{}", denom),
        AssetInfo::Token { contract_addr } => format!("t:{}", contract_addr),
    }
}
pub fn set_key(a: &AssetInfo, b: &AssetInfo) -> (String, String) {
    let (x, y) = (key_of(a), key_of(b));
    if x <= y { (x, y) } else { (y, x) }
}

#[derive(Clone, Debug)]
pub struct ModelPair {
    pub addr: String,
    pub infos: [AssetInfo; 2],
    pub decimals: [u8; 2],
    pub requirements: CreatePairRequirements,
    pub commission: u128,
}

#[derive(Default, Clone, Debug)]
pub struct Registry {
    pub pairs: BTreeMap<(String, String), ModelPair>,
    /// registered native decimals
    pub denoms: BTreeMap<String, u8>,
}

pub struct FactoryWorld {
    pub w: World,
    pub model: Registry,
    /// address of a contract whose `TokenInfo` answer has no `decimals` field
    pub odd: String,
}

impl FactoryWorld {
    pub fn build(cfg: &WorldCfg) -> FactoryWorld {
        let mut w = World::build(cfg).unwrap_or_else(|e| panic!("factory world build failed (harness): {e}"));
        let odd = w
            .app
            .instantiate_contract(w.codes.odd, w.owner.clone(), &cosmwasm_std::Empty {}, &[], "odd", None)
            .unwrap_or_else(|e| panic!("odd token instantiate failed (harness): {e:#}"))
            .to_string();
        let mut model = Registry::default();
        for (i, d) in w.natives.iter().enumerate() {
            if !cfg.unregistered.contains(&i) {
                model.denoms.insert(d.clone(), cfg.native_decimals[i]);
            }
        }
        FactoryWorld { w, model, odd }
    }

    /// the true decimals of an asset right now (None = not a valid pair asset)
    pub fn true_decimals(&self, a: &AssetInfo) -> Option<u8> {
        match a {
            AssetInfo::NativeToken { denom } => self.model.denoms.get(denom).copied(),
            AssetInfo::Token { contract_addr } => self.w.tokens.iter().find(|t| t.addr == *contract_addr).map(|t| t.decimals),
        }
    }

    pub fn universe(&self, with_invalid: bool) -> Vec<AssetInfo> {
        let mut v: Vec<AssetInfo> = self.w.natives.iter().map(|d| AssetInfo::NativeToken { denom: d.clone() }).collect();
        v.extend(self.w.tokens.iter().map(|t| AssetInfo::Token { contract_addr: t.addr.to_string() }));
        if with_invalid {
            v.push(AssetInfo::Token { contract_addr: self.w.actors[0].to_string() }); // a user, not a contract
            v.push(AssetInfo::Token { contract_addr: self.w.factory.to_string() });   // a contract that is not a cw20
            v.push(AssetInfo::Token { contract_addr: "contract777".to_string() });    // does not exist
            v.push(AssetInfo::Token { contract_addr: self.odd.clone() });              // answers TokenInfo without `decimals`
            v.push(AssetInfo::NativeToken { denom: "nosuchdenom".to_string() });
            // unregistered denoms that merely LOOK like a registered one (bank denoms are case sensitive
            // and may carry any suffix): a different spelling is a different, unregistered denom
            if let Some(d) = self.model.denoms.keys().next().cloned() {
                let mut cap = d.clone();
                if let Some(c) = cap.get_mut(0..1) {
                    c.make_ascii_uppercase();
                }
                for look in [d.to_uppercase(), cap, format!("{}x", d), format!("{}/1", d)] {
                    if !self.model.denoms.contains_key(&look) && !self.w.natives.contains(&look) {
                        v.push(AssetInfo::NativeToken { denom: look });
                    }
                }
            }
        }
        v
    }

    pub fn factory_pair(&self, a: &AssetInfo, b: &AssetInfo) -> Result<PairInfo, String> {
        self.w.query(self.w.factory.as_str(), &FactoryQuery::Pair { asset_infos: [a.clone(), b.clone()] })
    }
    pub fn pair_self(&self, addr: &str) -> Result<PairInfo, String> {
        self.w.query(addr, &haloswap::pair::QueryMsg::Pair {})
    }
    pub fn denom_decimals(&self, d: &str) -> Result<u8, String> {
        self.w.query::<NativeTokenDecimalsResponse>(self.w.factory.as_str(), &FactoryQuery::NativeTokenDecimals { denom: d.to_string() }).map(|r| r.decimals)
    }
    pub fn pairs_page(&self, start_after: Option<[AssetInfo; 2]>, limit: Option<u32>) -> Result<Vec<PairInfo>, String> {
        self.w.query::<PairsResponse>(self.w.factory.as_str(), &FactoryQuery::Pairs { start_after, limit }).map(|r| r.pairs)
    }

    /// Execute a CreatePair by `sender`; on success record it in the model. Returns the step record.
    pub fn create_pair(&mut self, sender: &str, infos: [AssetInfo; 2], requirements: CreatePairRequirements, commission: Option<u128>, lp: LPTokenInfo) -> StepRecord {
        let msg = FactoryExec::CreatePair { asset_infos: infos.clone(), requirements: requirements.clone(), commission_rate: commission.map(|c| to_dec(&n(c))), lp_token_info: lp };
        let rec = self.w.exec(Step { sender: sender.to_string(), call: Call::Factory { msg }, funds: vec![] });
        rec
    }

    /// Full consistency check of the registry against the model (C16's lookup agreement and
    /// no-aliasing; C17's factory record == pair self-description == model decimals).
    pub fn check_registry(&self, with_invalid: bool) -> Result<(), String> {
        let uni = self.universe(with_invalid);
        let mut seen_addr: BTreeMap<String, (String, String)> = BTreeMap::new();
        for i in 0..uni.len() {
            for j in i..uni.len() {
                let (a, b) = (&uni[i], &uni[j]);
                let k = set_key(a, b);
                let q1 = self.factory_pair(a, b);
                let q2 = self.factory_pair(b, a);
                match self.model.pairs.get(&k) {
                    Some(m) if i != j => {
                        for (q, order) in [(&q1, "given order"), (&q2, "reversed order")] {
                            let pi = match q {
                                Ok(pi) => pi,
                                Err(e) => return Err(format!("lookup of registered set {{{}, {}}} ({}) fails: {}", a, b, order, e)),
                            };
                            if pi.contract_addr != m.addr {
                                return Err(format!("lookup of set {{{}, {}}} ({}) returns pair {} but the set was created as pair {}", a, b, order, pi.contract_addr, m.addr));
                            }
                            let own = self.pair_self(&m.addr).map_err(|e| format!("pair {} does not answer Pair{{}}: {}", m.addr, e))?;
                            if *pi != own {
                                return Err(format!("factory record of set {{{}, {}}} differs from the pair's self-description: factory {:?} vs pair {:?}", a, b, pi, own));
                            }
                            // the record must describe THIS set and carry the true decimals of each asset in the
                            // position it lists it (requirements / commission are pinned to the pair's own
                            // report by the equality above; how they derive from the creation arguments is
                            // not part of the statement)
                            let same_set = set_key(&pi.asset_infos[0], &pi.asset_infos[1]) == set_key(&m.infos[0], &m.infos[1]);
                            let want_dec: Vec<Option<u8>> = pi.asset_infos.iter().map(|x| (0..2).find(|&i| m.infos[i] == *x).map(|i| m.decimals[i])).collect();
                            if !same_set || want_dec != vec![Some(pi.asset_decimals[0]), Some(pi.asset_decimals[1])] {
                                return Err(format!(
                                    "record of set {{{}, {}}} lists assets {:?} with decimals {:?}; the set was created over {:?} whose true decimals are {:?}",
                                    a, b, pi.asset_infos, pi.asset_decimals, m.infos, m.decimals
                                ));
                            }
                        }
                        if let Some(prev) = seen_addr.insert(m.addr.clone(), k.clone()) {
                            if prev != k {
                                return Err(format!("two different asset sets {:?} and {:?} resolve to the same pair {}", prev, k, m.addr));
                            }
                        }
                    }
                    _ => {
                        for (q, order) in [(&q1, "given order"), (&q2, "reversed order")] {
                            if let Ok(pi) = q {
                                return Err(format!(
                                    "set {{{}, {}}} was never created but its lookup ({}) resolves to pair {} (assets {:?})", a, b, order, pi.contract_addr, pi.asset_infos));
                            }
                        }
                    }
                }
            }
        }
        Ok(())
    }
}

pub fn gen_requirements(s: &mut Src, w: &World) -> CreatePairRequirements {
    let whitelist: Vec<Addr> = match s.weighted(&[3, 2, 1, 1]) {
        0 => vec![],
        1 => vec![w.actors[0].clone()],
        2 => w.actors.clone(),
        _ => vec![w.actors[1].clone(), w.actors[0].clone(), w.actors[1].clone()], // duplicates
    };
    let m = |s: &mut Src| match s.weighted(&[3, 1]) {
        0 => 0u128,
        _ => s.bits_u128(60),
    };
    CreatePairRequirements { whitelist, first_asset_minimum: Uint128::new(m(s)), second_asset_minimum: Uint128::new(m(s)) }
}

pub fn gen_commission(s: &mut Src) -> Option<u128> {
    match s.weighted(&[4, 4, 1, 1, 1]) {
        0 => None,
        1 => Some(gen_rate_atomics(s)),
        2 => Some(E18),
        3 => Some(E18 + 1 + s.bits_u128(60)), // above 100 %: must be refused
        _ => Some(0),
    }
}

pub fn gen_lp_info(s: &mut Src) -> (LPTokenInfo, bool) {
    // (info, valid)
    match s.weighted(&[10, 1, 1, 1]) {
        0 => (LPTokenInfo { lp_token_name: "halo-lp".into(), lp_token_symbol: "HLP".into(), lp_token_decimals: if s.bool() { Some(s.below(19) as u8) } else { None } }, true),
        1 => (LPTokenInfo { lp_token_name: "x".into(), lp_token_symbol: "HLP".into(), lp_token_decimals: None }, false),
        2 => (LPTokenInfo { lp_token_name: "halo-lp".into(), lp_token_symbol: "1".into(), lp_token_decimals: None }, false),
        _ => (LPTokenInfo { lp_token_name: "halo-lp".into(), lp_token_symbol: "HLP".into(), lp_token_decimals: Some(19 + s.below(200) as u8) }, false),
    }
}

pub fn describe_registry(fw: &FactoryWorld) -> Value {
    json!({
        "denoms": fw.w.natives, "registered_decimals": fw.model.denoms, "tokens": fw.w.tokens.iter().map(|t| json!({"addr": t.addr, "decimals": t.decimals})).collect::<Vec<_>>(),
        "pairs": fw.model.pairs.iter().map(|(k, m)| json!({"set": [k.0, k.1], "pair": m.addr, "decimals": m.decimals})).collect::<Vec<_>>(),
    })
}
