//! C12 — Quotes are faithful to execution (DESIGN.md C12).
use crate::engine::*;
use crate::hist::*;
use crate::props::quotes::*;
use crate::sys::*;

fn run_a(t: &Tape, want_desc: bool) -> CaseResult {
    let mut o = SimExecOnly::default();
    let h = run_history(t, &QUOTES, 15, &mut o, want_desc);
    hist_case(t, h)
}
fn run_a_hostile(t: &Tape, want_desc: bool) -> CaseResult {
    let mut o = SimExecOnly::default();
    let h = run_history(t, &HOSTILE, 15, &mut o, want_desc);
    hist_case(t, h)
}
fn run_b(t: &Tape, want_desc: bool) -> CaseResult {
    let mut o = ReverseOracle::default();
    let h = run_history(t, &QUOTES, 15, &mut o, want_desc);
    hist_case(t, h)
}
fn run_b_hostile(t: &Tape, want_desc: bool) -> CaseResult {
    let mut o = ReverseOracle::default();
    let h = run_history(t, &HOSTILE, 15, &mut o, want_desc);
    hist_case(t, h)
}
fn run_c(t: &Tape, want_desc: bool) -> CaseResult {
    let mut o = RouterSimOracle::default();
    let h = run_history(t, &ROUTES, 15, &mut o, want_desc);
    hist_case(t, h)
}

pub fn suites() -> Vec<Suite> {
    vec![
        crate::props::funcs::suite_reverse_formula(),
        Suite {
            name: "forward_vs_execution",
            about: "(a) Simulation queried in the pre-state vs the immediately executed well-formed swap (attributes and ledger), all pair kinds, both directions, offers from 1 to beyond the reserves",
            head_len: HEAD_LEN, op_len: OP_LEN, max_ops: 24, quick_cases: 10_000, thorough_cases: 300_000,
            run: run_a, direct: Some(direct_with::<SimExecOnly>),
            must_hit: &["q:execute", "q:hook", "q:paid", "k:native/native", "k:native/cw20", "k:cw20/cw20"],
        },
        Suite {
            name: "forward_vs_execution_hostile",
            about: "(a) on histories with extreme magnitudes",
            head_len: HEAD_LEN, op_len: OP_LEN, max_ops: 20, quick_cases: 5_000, thorough_cases: 150_000,
            run: run_a_hostile, direct: Some(direct_with::<SimExecOnly>),
            must_hit: &["q:execute", "q:hook"],
        },
        Suite {
            name: "reverse_closed_form",
            about: "(b) after every step ReverseSimulation is probed on a generated pair in both directions with asks from 1 to beyond what the pool can pay, and judged against x*y/(y - ask/(1-c)) - x: never above, below only by the derived rounding bound",
            head_len: HEAD_LEN, op_len: OP_LEN, max_ops: 20, quick_cases: 8_000, thorough_cases: 250_000,
            run: run_b, direct: Some(direct_with::<ReverseOracle>),
            must_hit: &["b:within-bounds", "b:skipped-D<=0", "b:query-rejected"],
        },
        Suite {
            name: "reverse_closed_form_hostile",
            about: "(b) on histories with extreme magnitudes",
            head_len: HEAD_LEN, op_len: OP_LEN, max_ops: 20, quick_cases: 5_000, thorough_cases: 150_000,
            run: run_b_hostile, direct: Some(direct_with::<ReverseOracle>),
            must_hit: &["b:within-bounds"],
        },
        Suite {
            name: "router_composition",
            about: "(c) after every step a generated route (0..5 hops, occasionally over assets without a pair) is quoted forward and backward through the router and compared with the harness's own fold of the pair queries; both must fail where the fold fails",
            head_len: HEAD_LEN, op_len: OP_LEN, max_ops: 20, quick_cases: 8_000, thorough_cases: 250_000,
            run: run_c, direct: Some(direct_with::<RouterSimOracle>),
            must_hit: &["c:forward-agree", "c:forward-both-fail", "c:reverse-agree", "c:reverse-both-fail", "c:0-hops", "c:1-hop", "c:2-hops", "c:3-hops", "c:4+-hops"],
        },
    ]
}

pub const RULE: &str = "cases = world + history; (a) every well-formed swap the history executes is preceded by a Simulation query in the same state; non-trivial = executed swap paying >= 1; (b) after every step 12 ReverseSimulation probes (both directions; ask in {1, fraction of the ask reserve, the deliverable maximum y(1-c) -0..2 and +1..3, half, the whole reserve +0..4}); non-trivial = a judged probe with ask >= 1 on a pair with commission > 0; probes with y - ask/(1-c) <= 0 are outside the closed form's domain: counted, skipped; (c) after every step one generated route quoted forward and backward; non-trivial = agreeing forward quotes over >= 2 hops; distinct = hash of the tape";
pub const ASSUMPTIONS: &[&str] = &[
    "the rounding bound of the reverse closed form is derived from the three documented truncations (18-digit inverse of 1-c, integer floor of ask/(1-c), integer floor of the quotient): offer >= x*y/(D + ask*10^-18 + 1) - x - 1 with D = y - ask/(1-c)",
    "aborting queries (c = 1, truncated ask/(1-c) >= y, 256-bit overflow) are rejections",
];
