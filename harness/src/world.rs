//! The system-level harness: a cw-multi-test world with the real factory, pair, router and
//! cw20-base contracts; step execution with abort capture; whole-chain snapshots; complete ledger
//! diffs decoded from raw storage; forks (DESIGN.md section 2.2).

use crate::engine::{guarded, last_panic};
use cosmwasm_std::{
    to_binary, Addr, Binary, Coin, CosmosMsg, Deps, DepsMut, Empty, Env, MessageInfo, Order, Response, StdError, StdResult,
    Uint128,
};
use cw20::{Cw20Coin, Cw20ExecuteMsg, MinterResponse};
use cw_multi_test::{App, AppBuilder, AppResponse, Contract, ContractWrapper, Executor};
use haloswap::asset::{AssetInfo, CreatePairRequirements, LPTokenInfo, PairInfo};
use serde::{Deserialize, Serialize};
use std::collections::BTreeMap;

pub type Snapshot = Vec<(Vec<u8>, Vec<u8>)>;

pub const OWNER: &str = "owner";
pub const DENOMS: [&str; 6] = ["ua", "uab", "uabc", "ub", "ibc/x1", "ubcd"];
/// the address the first cw20 token of every world receives (factory, router and proxy are contract0..2);
/// asserted in `World::build`. Some worlds hold a native denom spelled exactly like it.
pub const FIRST_TOKEN_ADDR: &str = "contract3";

// ------------------------------------------------------------------------------------------------
// the proxy ("rogue") contract: forwards any CosmosMsg it is given; answers cw20-style queries

#[derive(Serialize, Deserialize, Clone, Debug, PartialEq, schemars::JsonSchema)]
#[serde(rename_all = "snake_case")]
pub enum ProxyExecute {
    Forward { msgs: Vec<CosmosMsg> },
}

fn proxy_instantiate(_d: DepsMut, _e: Env, _i: MessageInfo, _m: Empty) -> StdResult<Response> {
    Ok(Response::new())
}
fn proxy_execute(_d: DepsMut, _e: Env, _i: MessageInfo, m: ProxyExecute) -> StdResult<Response> {
    match m {
        ProxyExecute::Forward { msgs } => Ok(Response::new().add_messages(msgs)),
    }
}
fn proxy_query(_d: Deps, _e: Env, m: cw20::Cw20QueryMsg) -> StdResult<Binary> {
    match m {
        cw20::Cw20QueryMsg::TokenInfo {} => to_binary(&cw20::TokenInfoResponse {
            name: "rogue".into(),
            symbol: "ROGUE".into(),
            decimals: 6,
            total_supply: Uint128::new(1_000_000),
        }),
        cw20::Cw20QueryMsg::Balance { .. } => to_binary(&cw20::BalanceResponse { balance: Uint128::new(1_000_000) }),
        _ => Err(StdError::generic_err("rogue: unsupported query")),
    }
}

fn code_factory() -> Box<dyn Contract<Empty>> {
    Box::new(
        ContractWrapper::new(halo_factory::contract::execute, halo_factory::contract::instantiate, halo_factory::contract::query)
            .with_reply(halo_factory::contract::reply)
            .with_migrate(halo_factory::contract::migrate),
    )
}
fn code_pair() -> Box<dyn Contract<Empty>> {
    Box::new(
        ContractWrapper::new(halo_pair::contract::execute, halo_pair::contract::instantiate, halo_pair::contract::query)
            .with_reply(halo_pair::contract::reply)
            .with_migrate(halo_pair::contract::migrate),
    )
}
fn code_router() -> Box<dyn Contract<Empty>> {
    Box::new(
        ContractWrapper::new(halo_router::contract::execute, halo_router::contract::instantiate, halo_router::contract::query)
            .with_migrate(halo_router::contract::migrate),
    )
}
fn code_cw20() -> Box<dyn Contract<Empty>> {
    Box::new(ContractWrapper::new(cw20_base::contract::execute, cw20_base::contract::instantiate, cw20_base::contract::query))
}
fn code_proxy() -> Box<dyn Contract<Empty>> {
    Box::new(ContractWrapper::new(proxy_execute, proxy_instantiate, proxy_query))
}

#[derive(Clone, Copy, Debug)]
pub struct CodeIds {
    pub factory: u64,
    pub pair: u64,
    pub router: u64,
    pub cw20: u64,
    pub proxy: u64,
    /// the pair code stored a second time (another code id, the same code): a migration target and an
    /// alternative `pair_code_id` for the factory configuration
    pub pair_alt: u64,
    /// a contract that answers the cw20 `TokenInfo` query WITHOUT a `decimals` field (instantiated by the
    /// factory-only worlds): not a cw20 contract by any reading, whatever else it answers
    pub odd: u64,
}

#[derive(Serialize)]
struct OddTokenInfo {
    name: String,
    symbol: String,
    total_supply: Uint128,
}
fn odd_query(_d: Deps, _e: Env, m: cw20::Cw20QueryMsg) -> StdResult<Binary> {
    match m {
        cw20::Cw20QueryMsg::TokenInfo {} => to_binary(&OddTokenInfo { name: "odd token".into(), symbol: "ODD".into(), total_supply: Uint128::new(1_000_000) }),
        cw20::Cw20QueryMsg::Balance { .. } => to_binary(&cw20::BalanceResponse { balance: Uint128::zero() }),
        _ => Err(StdError::generic_err("odd: unsupported query")),
    }
}
fn code_odd() -> Box<dyn Contract<Empty>> {
    Box::new(ContractWrapper::new(proxy_execute, proxy_instantiate, odd_query))
}

fn store_codes(app: &mut App) -> CodeIds {
    CodeIds {
        factory: app.store_code(code_factory()),
        pair: app.store_code(code_pair()),
        router: app.store_code(code_router()),
        cw20: app.store_code(code_cw20()),
        proxy: app.store_code(code_proxy()),
        pair_alt: app.store_code(code_pair()),
        odd: app.store_code(code_odd()),
    }
}

// ------------------------------------------------------------------------------------------------
// configuration

#[derive(Clone, Copy, Debug, Serialize, Deserialize, PartialEq, Eq, Hash, PartialOrd, Ord)]
pub enum AssetId {
    Native(usize),
    Token(usize),
}

/// serde helpers: u128 values travel as decimal strings (serde_json::Value has no u128)
pub mod s128 {
    use serde::{Deserialize, Deserializer, Serializer};
    pub fn serialize<S: Serializer>(v: &u128, s: S) -> Result<S::Ok, S::Error> {
        s.serialize_str(&v.to_string())
    }
    pub fn deserialize<'de, D: Deserializer<'de>>(d: D) -> Result<u128, D::Error> {
        let s = String::deserialize(d)?;
        s.parse().map_err(serde::de::Error::custom)
    }
}
pub mod s128opt {
    use serde::{Deserialize, Deserializer, Serializer};
    pub fn serialize<S: Serializer>(v: &Option<u128>, s: S) -> Result<S::Ok, S::Error> {
        match v {
            Some(v) => s.serialize_some(&v.to_string()),
            None => s.serialize_none(),
        }
    }
    pub fn deserialize<'de, D: Deserializer<'de>>(d: D) -> Result<Option<u128>, D::Error> {
        let s = Option::<String>::deserialize(d)?;
        match s {
            Some(s) => s.parse().map(Some).map_err(serde::de::Error::custom),
            None => Ok(None),
        }
    }
}
pub mod s128pair {
    use serde::{Deserialize, Deserializer, Serialize, Serializer};
    pub fn serialize<S: Serializer>(v: &[u128; 2], s: S) -> Result<S::Ok, S::Error> {
        [v[0].to_string(), v[1].to_string()].serialize(s)
    }
    pub fn deserialize<'de, D: Deserializer<'de>>(d: D) -> Result<[u128; 2], D::Error> {
        let s = <[String; 2]>::deserialize(d)?;
        Ok([s[0].parse().map_err(serde::de::Error::custom)?, s[1].parse().map_err(serde::de::Error::custom)?])
    }
}

#[derive(Clone, Debug, Serialize, Deserialize)]
pub struct PairCfg {
    pub assets: [AssetId; 2],
    /// commission atomics; None = factory default (0.003)
    #[serde(with = "s128opt")]
    pub commission: Option<u128>,
    /// indices of actors allowed to make the first provision
    pub whitelist: Vec<usize>,
    #[serde(with = "s128pair")]
    pub minimum: [u128; 2],
    pub lp_decimals: Option<u8>,
}

#[derive(Clone, Debug, Serialize, Deserialize)]
pub struct WorldCfg {
    pub native_decimals: Vec<u8>,
    pub token_decimals: Vec<u8>,
    pub pairs: Vec<PairCfg>,
    pub n_actors: usize,
    pub n_bystanders: usize,
    /// every holder starts with this much of every asset
    #[serde(with = "s128")]
    pub initial_balance: u128,
    /// allowance every holder grants to every pair and to the router on every cw20
    #[serde(with = "s128")]
    pub allowance: u128,
    /// native denoms of the world (empty = the default alphabet); all are funded, and registered at
    /// the factory unless listed in `unregistered`
    #[serde(default)]
    pub denoms: Vec<String>,
    #[serde(default)]
    pub unregistered: Vec<usize>,
    /// if not empty (one entry per native denom): the denoms are first registered with THESE decimals, the
    /// first pair is created, then every denom whose entry differs is re-registered with its final value
    /// (`native_decimals`), and only then the remaining pairs are created - so the world's later pairs are
    /// created after a re-registration, and its first pair has lived through one
    #[serde(default)]
    pub staged_decimals: Vec<u8>,
    /// 0: the router gets the same allowance as the pairs; 255: none at all; k: 2^(k-1) - an allowance a
    /// holder's balance can cover (the router never needs one: routes reach it through `Send` or with coins)
    #[serde(default)]
    pub router_allowance: u8,
    /// every actor grants the NEXT actor (cyclically) an allowance of 2^124 on every asset token and every LP
    /// token, so that hook swaps and withdrawals can also be delivered through `SendFrom` (spender != owner)
    #[serde(default)]
    pub peer_allowance: bool,
    /// the factory's chain-level (wasm) admin is an account of its own ("opsadmin") instead of the owner
    /// that instantiated it
    #[serde(default)]
    pub separate_factory_admin: bool,
}

#[derive(Clone, Debug)]
pub struct PairRec {
    pub addr: Addr,
    pub lp: Addr,
    pub assets: [AssetId; 2],
    pub infos: [AssetInfo; 2],
    pub commission: u128,
    pub cfg: PairCfg,
}

#[derive(Clone, Debug)]
pub struct TokenRec {
    pub addr: Addr,
    pub decimals: u8,
}

pub struct World {
    pub app: App,
    pub codes: CodeIds,
    pub cfg: WorldCfg,
    pub owner: Addr,
    pub factory: Addr,
    pub router: Addr,
    pub proxy: Addr,
    /// the account that may migrate the factory (its wasm admin): the owner, or "opsadmin"
    pub factory_admin: Addr,
    pub natives: Vec<String>,
    pub tokens: Vec<TokenRec>,
    pub pairs: Vec<PairRec>,
    pub actors: Vec<Addr>,
    pub bystanders: Vec<Addr>,
    /// the decimals currently registered for each native denom (follows successful re-registrations)
    pub native_decimals_now: Vec<u8>,
}

pub fn actor_addr(i: usize) -> Addr {
    Addr::unchecked(format!("actor{}", i))
}
pub fn bystander_addr(i: usize) -> Addr {
    Addr::unchecked(format!("bystander{}", i))
}
pub fn fresh_addr(i: usize) -> Addr {
    Addr::unchecked(format!("fresh{}", i))
}

// ------------------------------------------------------------------------------------------------
// step execution

#[derive(Clone, Debug, Serialize, Deserialize)]
pub enum Call {
    Pair { pair: usize, msg: haloswap::pair::ExecuteMsg },
    Cw20 { token: String, msg: Cw20ExecuteMsg },
    Bank { to: String, coins: Vec<Coin> },
    Router { msg: haloswap::router::ExecuteMsg },
    Factory { msg: haloswap::factory::ExecuteMsg },
    Proxy { msgs: Vec<CosmosMsg> },
    /// arbitrary contract + JSON message (forged internal calls)
    Raw { contract: String, msg: Binary },
    /// chain-level migration of a contract by its admin (`{}` as the migrate message)
    Migrate { contract: String, code_id: u64 },
}

#[derive(Clone, Debug, Serialize, Deserialize)]
pub struct Step {
    pub sender: String,
    pub call: Call,
    #[serde(default)]
    pub funds: Vec<Coin>,
}

#[derive(Clone, Debug, PartialEq)]
pub enum Change {
    Bank { account: String, denom: String, before: u128, after: u128 },
    Cw20Balance { token: String, account: String, before: u128, after: u128 },
    Cw20Supply { token: String, before: u128, after: u128 },
    Cw20Allowance { token: String, owner: String, spender: String },
    /// any other key of a contract's own state
    ContractState { contract: String, key: Vec<u8> },
    /// chain-level bookkeeping (contract registry ...)
    Chain { key: Vec<u8> },
}

#[derive(Clone, Debug)]
pub enum Outcome {
    Ok { attrs: Vec<(String, Vec<(String, String)>)> }, // per wasm event: (contract, attributes)
    Err(String),
    Abort(String),
}

impl Outcome {
    pub fn is_ok(&self) -> bool {
        matches!(self, Outcome::Ok { .. })
    }
    pub fn err_text(&self) -> &str {
        match self {
            Outcome::Ok { .. } => "",
            Outcome::Err(e) => e,
            Outcome::Abort(e) => e,
        }
    }
    /// attributes of the first wasm event emitted by `contract` that has action == `action`
    pub fn event(&self, contract: &str, action: &str) -> Option<&Vec<(String, String)>> {
        self.events(contract, action).into_iter().next()
    }
    pub fn events(&self, contract: &str, action: &str) -> Vec<&Vec<(String, String)>> {
        match self {
            Outcome::Ok { attrs } => attrs
                .iter()
                .filter(|(c, a)| c == contract && a.iter().any(|(k, v)| k == "action" && v == action))
                .map(|(_, a)| a)
                .collect(),
            _ => vec![],
        }
    }
}

pub fn attr<'a>(a: &'a [(String, String)], k: &str) -> Option<&'a str> {
    a.iter().find(|(kk, _)| kk == k).map(|(_, v)| v.as_str())
}
pub fn attr_u128(a: &[(String, String)], k: &str) -> Option<u128> {
    attr(a, k).and_then(|v| v.parse().ok())
}

pub struct StepRecord {
    pub step: Step,
    pub outcome: Outcome,
    pub changes: Vec<Change>,
    pub before: Snapshot,
    pub after: Snapshot,
}

fn ns(out: &mut Vec<u8>, s: &[u8]) {
    out.push((s.len() >> 8) as u8);
    out.push(s.len() as u8);
    out.extend_from_slice(s);
}
fn snap_get<'a>(snap: &'a Snapshot, key: &[u8]) -> Option<&'a Vec<u8>> {
    snap.binary_search_by(|(k, _)| k.as_slice().cmp(key)).ok().map(|i| &snap[i].1)
}
pub fn snap_bank(snap: &Snapshot, account: &str, denom: &str) -> u128 {
    let mut k = vec![];
    ns(&mut k, b"bank");
    ns(&mut k, b"balances");
    k.extend_from_slice(account.as_bytes());
    snap_get(snap, &k).map(|v| parse_coins(v).get(denom).copied().unwrap_or(0)).unwrap_or(0)
}
fn contract_prefix(contract: &str) -> Vec<u8> {
    let mut k = vec![];
    ns(&mut k, b"wasm");
    let mut n2 = b"contract_data/".to_vec();
    n2.extend_from_slice(contract.as_bytes());
    ns(&mut k, &n2);
    k
}
pub fn snap_cw20(snap: &Snapshot, token: &str, account: &str) -> u128 {
    let mut k = contract_prefix(token);
    ns(&mut k, b"balance");
    k.extend_from_slice(account.as_bytes());
    snap_get(snap, &k).map(|v| parse_u128_json(v)).unwrap_or(0)
}
pub fn snap_supply(snap: &Snapshot, token: &str) -> u128 {
    let mut k = contract_prefix(token);
    k.extend_from_slice(b"token_info");
    snap_get(snap, &k).map(|v| parse_supply(v)).unwrap_or(0)
}
pub fn snap_balance(snap: &Snapshot, asset: &AssetInfo, account: &str) -> u128 {
    match asset {
        AssetInfo::NativeToken { denom } => snap_bank(snap, account, denom),
        AssetInfo::Token { contract_addr } => snap_cw20(snap, contract_addr, account),
    }
}
/// cw20 allowance owner -> spender in a snapshot
pub fn snap_allowance(snap: &Snapshot, token: &str, owner: &str, spender: &str) -> u128 {
    let mut k = contract_prefix(token);
    ns(&mut k, b"allowance");
    ns(&mut k, owner.as_bytes());
    k.extend_from_slice(spender.as_bytes());
    snap_get(snap, &k)
        .and_then(|v| serde_json::from_slice::<serde_json::Value>(v).ok())
        .and_then(|j| j["allowance"].as_str().and_then(|s| s.parse().ok()))
        .unwrap_or(0)
}

impl StepRecord {
    pub fn state_unchanged(&self) -> bool {
        self.changes.is_empty()
    }
    pub fn delta(&self, asset: &AssetInfo, account: &str) -> i128 {
        let mut d: i128 = 0;
        for c in &self.changes {
            match (c, asset) {
                (Change::Bank { account: a, denom, before, after }, AssetInfo::NativeToken { denom: want }) if a == account && denom == want => {
                    d += *after as i128 - *before as i128
                }
                (Change::Cw20Balance { token, account: a, before, after }, AssetInfo::Token { contract_addr }) if a == account && token == contract_addr => {
                    d += *after as i128 - *before as i128
                }
                _ => {}
            }
        }
        d
    }
}

// ------------------------------------------------------------------------------------------------
// raw storage decoding

fn take_ns(k: &[u8]) -> Option<(&[u8], &[u8])> {
    if k.len() < 2 {
        return None;
    }
    let l = ((k[0] as usize) << 8) | k[1] as usize;
    if k.len() < 2 + l {
        return None;
    }
    Some((&k[2..2 + l], &k[2 + l..]))
}

#[derive(Debug, Clone, PartialEq)]
pub enum KeyKind {
    Bank { account: String },
    ContractRegistry,
    Contract { contract: String, ckey: Vec<u8> },
    Other,
}

pub fn classify_key(k: &[u8]) -> KeyKind {
    if let Some((ns, rest)) = take_ns(k) {
        if ns == b"bank" {
            if let Some((ns2, acc)) = take_ns(rest) {
                if ns2 == b"balances" {
                    return KeyKind::Bank { account: String::from_utf8_lossy(acc).to_string() };
                }
            }
            return KeyKind::Other;
        }
        if ns == b"wasm" {
            if let Some((ns2, ckey)) = take_ns(rest) {
                if ns2 == b"contracts" {
                    return KeyKind::ContractRegistry;
                }
                if let Some(addr) = ns2.strip_prefix(b"contract_data/") {
                    return KeyKind::Contract { contract: String::from_utf8_lossy(addr).to_string(), ckey: ckey.to_vec() };
                }
            }
        }
    }
    KeyKind::Other
}

fn parse_coins(v: &[u8]) -> BTreeMap<String, u128> {
    let coins: Vec<Coin> = serde_json::from_slice(v).expect("bank balance is not a coin list (harness decoding bug)");
    coins.into_iter().map(|c| (c.denom, c.amount.u128())).collect()
}
fn parse_u128_json(v: &[u8]) -> u128 {
    let s: String = serde_json::from_slice(v).expect("cw20 balance is not a JSON string (harness decoding bug)");
    s.parse().expect("cw20 balance not a number")
}
fn parse_supply(v: &[u8]) -> u128 {
    let j: serde_json::Value = serde_json::from_slice(v).expect("token_info not JSON");
    j["total_supply"].as_str().expect("no total_supply").parse().expect("bad total_supply")
}

/// (ns, rest) of a cw-storage-plus map key inside a contract
fn map_key(ckey: &[u8]) -> Option<(&[u8], &[u8])> {
    take_ns(ckey)
}

pub fn diff_snapshots(before: &Snapshot, after: &Snapshot, is_cw20: &dyn Fn(&str) -> bool) -> Vec<Change> {
    let mut out = vec![];
    let (mut i, mut j) = (0, 0);
    let empty: Vec<u8> = vec![];
    let mut push = |k: &Vec<u8>, b: Option<&Vec<u8>>, a: Option<&Vec<u8>>| match classify_key(k) {
        KeyKind::Bank { account } => {
            let mb = b.map(|v| parse_coins(v)).unwrap_or_default();
            let ma = a.map(|v| parse_coins(v)).unwrap_or_default();
            let mut denoms: Vec<&String> = mb.keys().chain(ma.keys()).collect();
            denoms.sort();
            denoms.dedup();
            for d in denoms {
                let (x, y) = (mb.get(d).copied().unwrap_or(0), ma.get(d).copied().unwrap_or(0));
                if x != y {
                    out.push(Change::Bank { account: account.clone(), denom: d.clone(), before: x, after: y });
                }
            }
        }
        KeyKind::ContractRegistry => out.push(Change::Chain { key: k.clone() }),
        KeyKind::Contract { contract, ckey } => {
            if is_cw20(&contract) {
                if ckey == b"token_info" {
                    let (x, y) = (b.map(|v| parse_supply(v)).unwrap_or(0), a.map(|v| parse_supply(v)).unwrap_or(0));
                    if x != y {
                        out.push(Change::Cw20Supply { token: contract, before: x, after: y });
                    } else {
                        out.push(Change::ContractState { contract, key: ckey });
                    }
                    return;
                }
                if let Some((ns, rest)) = map_key(&ckey) {
                    if ns == b"balance" {
                        let (x, y) = (b.map(|v| parse_u128_json(v)).unwrap_or(0), a.map(|v| parse_u128_json(v)).unwrap_or(0));
                        if x != y {
                            out.push(Change::Cw20Balance { token: contract, account: String::from_utf8_lossy(rest).to_string(), before: x, after: y });
                        }
                        return;
                    }
                    if ns == b"allowance" || ns == b"allowance_spender" {
                        if let Some((o, s)) = take_ns(rest) {
                            let (o, s) = (String::from_utf8_lossy(o).to_string(), String::from_utf8_lossy(s).to_string());
                            let (owner, spender) = if ns == b"allowance" { (o, s) } else { (s, o) };
                            let c = Change::Cw20Allowance { token: contract, owner, spender };
                            if !out.contains(&c) {
                                out.push(c);
                            }
                            return;
                        }
                    }
                }
            }
            out.push(Change::ContractState { contract, key: ckey });
        }
        KeyKind::Other => out.push(Change::Chain { key: k.clone() }),
    };
    let _ = &empty;
    while i < before.len() || j < after.len() {
        if j >= after.len() || (i < before.len() && before[i].0 < after[j].0) {
            push(&before[i].0, Some(&before[i].1), None);
            i += 1;
        } else if i >= before.len() || after[j].0 < before[i].0 {
            push(&after[j].0, None, Some(&after[j].1));
            j += 1;
        } else {
            if before[i].1 != after[j].1 {
                push(&before[i].0, Some(&before[i].1), Some(&after[j].1));
            }
            i += 1;
            j += 1;
        }
    }
    out
}

/// complete ledger: (asset key, account) -> balance, for every account present in storage
#[derive(Default, Debug, Clone)]
pub struct Ledger {
    pub bank: BTreeMap<(String, String), u128>,  // (denom, account)
    pub cw20: BTreeMap<(String, String), u128>,  // (token, account)
    pub supply: BTreeMap<String, u128>,          // token -> total_supply
}

pub fn ledger_of(snap: &Snapshot, is_cw20: &dyn Fn(&str) -> bool) -> Ledger {
    let mut l = Ledger::default();
    for (k, v) in snap {
        match classify_key(k) {
            KeyKind::Bank { account } => {
                for (d, a) in parse_coins(v) {
                    l.bank.insert((d, account.clone()), a);
                }
            }
            KeyKind::Contract { contract, ckey } if is_cw20(&contract) => {
                if ckey == b"token_info" {
                    l.supply.insert(contract, parse_supply(v));
                } else if let Some((ns, rest)) = map_key(&ckey) {
                    if ns == b"balance" {
                        l.cw20.insert((contract, String::from_utf8_lossy(rest).to_string()), parse_u128_json(v));
                    }
                }
            }
            _ => {}
        }
    }
    l
}

// ------------------------------------------------------------------------------------------------

impl World {
    pub fn asset_info(&self, a: AssetId) -> AssetInfo {
        match a {
            AssetId::Native(i) => AssetInfo::NativeToken { denom: self.natives[i].clone() },
            AssetId::Token(i) => AssetInfo::Token { contract_addr: self.tokens[i].addr.to_string() },
        }
    }
    pub fn asset_decimals(&self, a: AssetId) -> u8 {
        match a {
            AssetId::Native(i) => self.native_decimals_now[i],
            AssetId::Token(i) => self.tokens[i].decimals,
        }
    }
    pub fn all_assets(&self) -> Vec<AssetId> {
        (0..self.natives.len()).map(AssetId::Native).chain((0..self.tokens.len()).map(AssetId::Token)).collect()
    }
    pub fn holders(&self) -> Vec<Addr> {
        self.actors.iter().chain(self.bystanders.iter()).cloned().collect()
    }

    pub fn snapshot(&self) -> Snapshot {
        self.app.read_module(|_, _, storage| storage.range(None, None, Order::Ascending).collect())
    }

    /// cw20 contracts = world tokens + LP tokens (by code id in the chain's contract registry)
    pub fn is_cw20(&self, addr: &str) -> bool {
        self.tokens.iter().any(|t| t.addr == addr) || self.pairs.iter().any(|p| p.lp == addr)
    }

    pub fn ledger(&self) -> Ledger {
        let s = self.snapshot();
        ledger_of(&s, &|a| self.is_cw20(a))
    }

    pub fn balance(&self, asset: &AssetInfo, account: &str) -> u128 {
        match asset {
            AssetInfo::NativeToken { denom } => self.app.wrap().query_balance(account, denom).map(|c| c.amount.u128()).unwrap_or(0),
            AssetInfo::Token { contract_addr } => self.cw20_balance(contract_addr, account),
        }
    }
    pub fn cw20_balance(&self, token: &str, account: &str) -> u128 {
        let r: StdResult<cw20::BalanceResponse> = self.app.wrap().query_wasm_smart(token, &cw20::Cw20QueryMsg::Balance { address: account.to_string() });
        r.map(|b| b.balance.u128()).unwrap_or(0)
    }
    pub fn cw20_supply(&self, token: &str) -> u128 {
        let r: StdResult<cw20::TokenInfoResponse> = self.app.wrap().query_wasm_smart(token, &cw20::Cw20QueryMsg::TokenInfo {});
        r.map(|b| b.total_supply.u128()).unwrap_or(0)
    }
    /// (reserve0, reserve1, LP supply) of a pair, from real balances
    pub fn pool(&self, p: usize) -> (u128, u128, u128) {
        let pr = &self.pairs[p];
        (self.balance(&pr.infos[0], pr.addr.as_str()), self.balance(&pr.infos[1], pr.addr.as_str()), self.cw20_supply(pr.lp.as_str()))
    }

    pub fn query<T: serde::de::DeserializeOwned>(&self, contract: &str, msg: &impl Serialize) -> Result<T, String> {
        let app = &self.app;
        match guarded(|| app.wrap().query_wasm_smart::<T>(contract, msg)) {
            Ok(Ok(v)) => Ok(v),
            Ok(Err(e)) => Err(e.to_string()),
            Err(p) => Err(format!("abort: {p}")),
        }
    }

    fn exec_raw(&mut self, step: &Step) -> Outcome {
        let sender = Addr::unchecked(step.sender.clone());
        let app = &mut self.app;
        let pairs = &self.pairs;
        let (factory, router, proxy) = (self.factory.clone(), self.router.clone(), self.proxy.clone());
        let funds = step.funds.clone();
        let call = step.call.clone();
        let res = std::panic::catch_unwind(std::panic::AssertUnwindSafe(move || -> anyhow::Result<AppResponse> {
            match call {
                Call::Pair { pair, msg } => app.execute_contract(sender, pairs[pair].addr.clone(), &msg, &funds),
                Call::Cw20 { token, msg } => app.execute_contract(sender, Addr::unchecked(token), &msg, &funds),
                Call::Bank { to, coins } => app.send_tokens(sender, Addr::unchecked(to), &coins),
                Call::Router { msg } => app.execute_contract(sender, router, &msg, &funds),
                Call::Factory { msg } => app.execute_contract(sender, factory, &msg, &funds),
                Call::Proxy { msgs } => app.execute_contract(sender, proxy, &ProxyExecute::Forward { msgs }, &funds),
                Call::Raw { contract, msg } => app.execute(
                    sender,
                    CosmosMsg::Wasm(cosmwasm_std::WasmMsg::Execute { contract_addr: contract, msg, funds }),
                ),
                Call::Migrate { contract, code_id } => app.migrate_contract(sender, Addr::unchecked(contract), &Empty {}, code_id),
            }
        }));
        match res {
            Ok(Ok(r)) => {
                let mut attrs = vec![];
                for ev in r.events {
                    if ev.ty == "wasm" {
                        let c = ev.attributes.iter().find(|a| a.key == "_contract_addr").map(|a| a.value.clone()).unwrap_or_default();
                        attrs.push((c, ev.attributes.iter().map(|a| (a.key.clone(), a.value.clone())).collect()));
                    }
                }
                Outcome::Ok { attrs }
            }
            Ok(Err(e)) => Outcome::Err(format!("{:#}", e)),
            Err(_) => Outcome::Abort(last_panic()),
        }
    }

    /// Execute one step; record outcome and the complete diff of chain state.
    pub fn exec(&mut self, step: Step) -> StepRecord {
        let before = self.snapshot();
        let outcome = self.exec_raw(&step);
        let after = self.snapshot();
        // LP tokens of pairs created during this very step are not yet known to is_cw20; the caller
        // (factory-level code) re-syncs pairs afterwards. For diffing use code ids from the registry.
        let changes = diff_snapshots(&before, &after, &|a| self.is_cw20(a));
        if outcome.is_ok() {
            if let Call::Factory { msg: haloswap::factory::ExecuteMsg::AddNativeTokenDecimals { denom, decimals } } = &step.call {
                if let Some(i) = self.natives.iter().position(|d| d == denom) {
                    self.native_decimals_now[i] = *decimals;
                }
            }
        }
        StepRecord { step, outcome, changes, before, after }
    }

    pub fn fork(&self) -> World {
        let snap = self.snapshot();
        let mut app = AppBuilder::new().build(|_, _, _| {});
        let codes = store_codes(&mut app);
        app.init_modules(|_, _, storage| {
            for (k, v) in &snap {
                storage.set(k, v);
            }
        });
        app.set_block(self.app.block_info());
        World {
            app,
            codes,
            cfg: self.cfg.clone(),
            owner: self.owner.clone(),
            factory: self.factory.clone(),
            router: self.router.clone(),
            proxy: self.proxy.clone(),
            factory_admin: self.factory_admin.clone(),
            natives: self.natives.clone(),
            tokens: self.tokens.clone(),
            pairs: self.pairs.clone(),
            actors: self.actors.clone(),
            bystanders: self.bystanders.clone(),
            native_decimals_now: self.native_decimals_now.clone(),
        }
    }

    /// Build a world. Err = the configuration could not be set up (harness problem, not a verdict).
    pub fn build(cfg: &WorldCfg) -> Result<World, String> {
        let owner = Addr::unchecked(OWNER);
        let natives: Vec<String> = if cfg.denoms.is_empty() {
            DENOMS.iter().take(cfg.native_decimals.len()).map(|s| s.to_string()).collect()
        } else {
            cfg.denoms.clone()
        };
        let actors: Vec<Addr> = (0..cfg.n_actors).map(actor_addr).collect();
        let bystanders: Vec<Addr> = (0..cfg.n_bystanders).map(bystander_addr).collect();
        let holders: Vec<Addr> = actors.iter().chain(bystanders.iter()).cloned().collect();
        let bal = cfg.initial_balance;
        let mut app = AppBuilder::new().build(|router, _, storage| {
            for h in holders.iter() {
                let mut coins: Vec<Coin> = natives.iter().map(|d| Coin { denom: d.clone(), amount: Uint128::new(bal) }).collect();
                // ... and of the upper-case LOOK-ALIKE of every denom (bank denoms are case sensitive: a different coin)
                for d in natives.iter() {
                    let up = d.to_uppercase();
                    if up != *d && !natives.contains(&up) && !coins.iter().any(|c| c.denom == up) {
                        coins.push(Coin { denom: up, amount: Uint128::new(bal) });
                    }
                }
                if !coins.is_empty() {
                    router.bank.init_balance(storage, h, coins).unwrap();
                }
            }
            // the owner funds the factory with one unit of each denom (required for registration)
            // (the owner also holds upper-case look-alikes of every denom: bank denoms are case sensitive, so
            // "UA" is a different coin than "ua"; C17 registers such look-alikes)
            let mut coins: Vec<Coin> = natives.iter().map(|d| Coin { denom: d.clone(), amount: Uint128::new(10) }).collect();
            for d in natives.iter() {
                let up = d.to_uppercase();
                if up != *d && !natives.contains(&up) && !coins.iter().any(|c| c.denom == up) {
                    coins.push(Coin { denom: up, amount: Uint128::new(10) });
                }
            }
            if !coins.is_empty() {
                router.bank.init_balance(storage, &Addr::unchecked(OWNER), coins).unwrap();
            }
        });
        let codes = store_codes(&mut app);
        let e = |x: anyhow::Error| format!("{:#}", x);
        let factory = app
            .instantiate_contract(codes.factory, owner.clone(), &haloswap::factory::InstantiateMsg { pair_code_id: codes.pair, token_code_id: codes.cw20 }, &[], "factory", Some(if cfg.separate_factory_admin { "opsadmin".to_string() } else { owner.to_string() }))
            .map_err(e)?;
        let router = app
            .instantiate_contract(codes.router, owner.clone(), &haloswap::router::InstantiateMsg { halo_factory: factory.to_string() }, &[], "router", None)
            .map_err(e)?;
        let proxy = app.instantiate_contract(codes.proxy, owner.clone(), &Empty {}, &[], "proxy", None).map_err(e)?;
        // register denoms
        for (i, d) in natives.iter().enumerate() {
            if cfg.unregistered.contains(&i) {
                continue;
            }
            app.send_tokens(owner.clone(), factory.clone(), &[Coin { denom: d.clone(), amount: Uint128::new(1) }]).map_err(e)?;
            app.execute_contract(
                owner.clone(),
                factory.clone(),
                &haloswap::factory::ExecuteMsg::AddNativeTokenDecimals { denom: d.clone(), decimals: cfg.staged_decimals.get(i).copied().unwrap_or(cfg.native_decimals[i]) },
                &[],
            )
            .map_err(e)?;
        }
        // tokens
        let mut tokens = vec![];
        for (i, dec) in cfg.token_decimals.iter().enumerate() {
            let addr = app
                .instantiate_contract(
                    codes.cw20,
                    owner.clone(),
                    &cw20_base::msg::InstantiateMsg {
                        name: format!("token{}", i),
                        symbol: format!("TOK{}", (b'A' + i as u8) as char),
                        decimals: *dec,
                        initial_balances: holders.iter().map(|h| Cw20Coin { address: h.to_string(), amount: Uint128::new(bal) }).collect(),
                        mint: Some(MinterResponse { minter: owner.to_string(), cap: None }),
                        marketing: None,
                    },
                    &[],
                    "token",
                    None,
                )
                .map_err(e)?;
            if tokens.is_empty() && addr.as_str() != FIRST_TOKEN_ADDR {
                return Err(format!("first token address is {} and not {}", addr, FIRST_TOKEN_ADDR));
            }
            tokens.push(TokenRec { addr, decimals: *dec });
        }
        let factory_admin = if cfg.separate_factory_admin { Addr::unchecked("opsadmin") } else { owner.clone() };
        let mut w = World { app, codes, cfg: cfg.clone(), owner, factory, router, proxy, factory_admin, natives, tokens, pairs: vec![], actors, bystanders, native_decimals_now: cfg.native_decimals.clone() };
        for (k, pc) in cfg.pairs.clone().into_iter().enumerate() {
            w.create_pair(&pc)?;
            if k == 0 && !cfg.staged_decimals.is_empty() {
                for (i, d) in w.natives.clone().iter().enumerate() {
                    if cfg.unregistered.contains(&i) || cfg.staged_decimals.get(i).copied() == Some(cfg.native_decimals[i]) {
                        continue;
                    }
                    w.app
                        .execute_contract(w.owner.clone(), w.factory.clone(), &haloswap::factory::ExecuteMsg::AddNativeTokenDecimals { denom: d.clone(), decimals: cfg.native_decimals[i] }, &[])
                        .map_err(|x| format!("{:#}", x))?;
                }
            }
        }
        // allowances toward every pair and the router
        let spenders: Vec<Addr> = w.pairs.iter().map(|p| p.addr.clone()).chain(std::iter::once(w.router.clone())).collect();
        if cfg.allowance > 0 {
            for t in w.tokens.clone() {
                for h in w.holders() {
                    for s in &spenders {
                        let amount = if *s == w.router {
                            match cfg.router_allowance {
                                0 => cfg.allowance,
                                255 => 0,
                                k => 1u128 << (k - 1).min(126),
                            }
                        } else {
                            cfg.allowance
                        };
                        if amount == 0 {
                            continue;
                        }
                        w.app
                            .execute_contract(h.clone(), t.addr.clone(), &Cw20ExecuteMsg::IncreaseAllowance { spender: s.to_string(), amount: Uint128::new(amount), expires: None }, &[])
                            .map_err(|x| format!("{:#}", x))?;
                    }
                }
            }
        }
        if cfg.peer_allowance {
            let toks: Vec<Addr> = w.tokens.iter().map(|t| t.addr.clone()).chain(w.pairs.iter().map(|p| p.lp.clone())).collect();
            let n = w.actors.len();
            for t in toks {
                for i in 0..n {
                    w.app
                        .execute_contract(w.actors[i].clone(), t.clone(), &Cw20ExecuteMsg::IncreaseAllowance { spender: w.actors[(i + 1) % n].to_string(), amount: Uint128::new(1u128 << 124), expires: None }, &[])
                        .map_err(|x| format!("{:#}", x))?;
                }
            }
        }
        Ok(w)
    }

    pub fn create_pair_msg(&self, pc: &PairCfg) -> haloswap::factory::ExecuteMsg {
        haloswap::factory::ExecuteMsg::CreatePair {
            asset_infos: [self.asset_info(pc.assets[0]), self.asset_info(pc.assets[1])],
            requirements: CreatePairRequirements {
                whitelist: pc.whitelist.iter().map(|i| actor_addr(*i)).collect(),
                first_asset_minimum: Uint128::new(pc.minimum[0]),
                second_asset_minimum: Uint128::new(pc.minimum[1]),
            },
            commission_rate: pc.commission.map(|c| crate::gen::to_dec(&crate::nat::n(c))),
            lp_token_info: LPTokenInfo { lp_token_name: "lp-token".into(), lp_token_symbol: "HLP".into(), lp_token_decimals: pc.lp_decimals },
        }
    }

    pub fn create_pair(&mut self, pc: &PairCfg) -> Result<usize, String> {
        let msg = self.create_pair_msg(pc);
        self.app.execute_contract(self.owner.clone(), self.factory.clone(), &msg, &[]).map_err(|x| format!("create_pair: {:#}", x))?;
        let infos = [self.asset_info(pc.assets[0]), self.asset_info(pc.assets[1])];
        let pi: PairInfo = self.query(self.factory.as_str(), &haloswap::factory::QueryMsg::Pair { asset_infos: infos.clone() })?;
        self.pairs.push(PairRec {
            addr: Addr::unchecked(pi.contract_addr),
            lp: Addr::unchecked(pi.liquidity_token),
            assets: pc.assets,
            infos,
            commission: pc.commission.unwrap_or(3_000_000_000_000_000),
            cfg: pc.clone(),
        });
        Ok(self.pairs.len() - 1)
    }
}

/// Harness self-check used by the replay tier of the system-level properties: decoded ledger ==
/// typed queries, and a fork is byte-identical and stays identical after the same step.
pub fn selfcheck(w: &mut World) -> Result<(), String> {
    let l = w.ledger();
    for h in w.holders() {
        for a in w.all_assets() {
            let info = w.asset_info(a);
            let q = w.balance(&info, h.as_str());
            let d = match &info {
                AssetInfo::NativeToken { denom } => l.bank.get(&(denom.clone(), h.to_string())).copied().unwrap_or(0),
                AssetInfo::Token { contract_addr } => l.cw20.get(&(contract_addr.clone(), h.to_string())).copied().unwrap_or(0),
            };
            if q != d {
                return Err(format!("ledger decoding disagrees with query for {} of {}: {} vs {}", info, h, d, q));
            }
        }
    }
    for t in &w.tokens {
        if l.supply.get(t.addr.as_str()).copied() != Some(w.cw20_supply(t.addr.as_str())) {
            return Err("decoded supply disagrees with TokenInfo".into());
        }
    }
    let f = w.fork();
    if f.snapshot() != w.snapshot() {
        return Err("fork snapshot differs from the original".into());
    }
    Ok(())
}
