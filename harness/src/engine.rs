//! The engine shared by every property: choice tapes, the proptest driver, counting, shrinking to a
//! replay file, evidence writing.
//!
//! A *case* is a `Tape`: a fixed-length `head` of u64 choices plus a variable-length list of
//! fixed-width `ops` chunks.  proptest generates and shrinks tapes (`vec(any::<u64>())`), libFuzzer
//! mutates their byte encoding; each suite decodes a tape into structured inputs with `Src`, whose
//! mappings are monotone (a smaller choice is a simpler input), so proptest's integer / vector
//! shrinking is meaningful.  All randomness therefore stays inside the library's generators.

use proptest::collection::vec;
use proptest::prelude::*;
use proptest::test_runner::{Config, RngAlgorithm, TestCaseError, TestError, TestRng, TestRunner};
use serde::{Deserialize, Serialize};
use serde_json::{json, Value};
use std::cell::RefCell;
use std::collections::{BTreeMap, HashSet};
use std::panic::{catch_unwind, AssertUnwindSafe};
use std::time::Instant;

#[derive(Clone, Debug, Serialize, Deserialize, PartialEq, Eq, Hash, Default)]
pub struct Tape {
    pub head: Vec<u64>,
    #[serde(default)]
    pub ops: Vec<Vec<u64>>,
}

impl Tape {
    pub fn to_bytes(&self) -> Vec<u8> {
        let mut out = vec![];
        for v in &self.head {
            out.extend_from_slice(&v.to_le_bytes());
        }
        for op in &self.ops {
            for v in op {
                out.extend_from_slice(&v.to_le_bytes());
            }
        }
        out
    }
    /// libFuzzer / corpus decoding: first head_len words are the head, the rest is cut in op chunks
    pub fn from_bytes(b: &[u8], head_len: usize, op_len: usize, max_ops: usize) -> Tape {
        let mut words: Vec<u64> = b
            .chunks(8)
            .map(|c| {
                let mut w = [0u8; 8];
                w[..c.len()].copy_from_slice(c);
                u64::from_le_bytes(w)
            })
            .collect();
        if words.len() < head_len {
            words.resize(head_len, 0);
        }
        let rest = words.split_off(head_len);
        let mut ops = vec![];
        if op_len > 0 {
            for c in rest.chunks(op_len) {
                if ops.len() >= max_ops {
                    break;
                }
                let mut v = c.to_vec();
                v.resize(op_len, 0);
                ops.push(v);
            }
        }
        Tape { head: words, ops }
    }
}

/// Sequential reader of a choice slice. Past the end every choice is 0 (the simplest one).
pub struct Src<'a> {
    d: &'a [u64],
    i: usize,
}

impl<'a> Src<'a> {
    pub fn new(d: &'a [u64]) -> Src<'a> {
        Src { d, i: 0 }
    }
    pub fn used(&self) -> usize {
        self.i
    }
    pub fn u64(&mut self) -> u64 {
        let v = self.d.get(self.i).copied().unwrap_or(0);
        self.i += 1;
        v
    }
    /// uniform in 0..n, monotone in the underlying choice
    pub fn below(&mut self, n: u64) -> u64 {
        if n == 0 {
            self.u64();
            return 0;
        }
        ((self.u64() as u128 * n as u128) >> 64) as u64
    }
    pub fn idx(&mut self, n: usize) -> usize {
        self.below(n as u64) as usize
    }
    /// inclusive range
    pub fn range(&mut self, lo: u64, hi: u64) -> u64 {
        lo + self.below(hi - lo + 1)
    }
    /// true with probability num/den; the zero choice is `false`
    pub fn chance(&mut self, num: u64, den: u64) -> bool {
        self.below(den) >= den - num
    }
    pub fn bool(&mut self) -> bool {
        self.chance(1, 2)
    }
    /// index drawn with the given weights; index 0 is the simplest
    pub fn weighted(&mut self, w: &[u32]) -> usize {
        let total: u64 = w.iter().map(|&x| x as u64).sum();
        let mut r = self.below(total);
        for (i, &x) in w.iter().enumerate() {
            if r < x as u64 {
                return i;
            }
            r -= x as u64;
        }
        w.len() - 1
    }
    pub fn pick<T: Copy>(&mut self, xs: &[T]) -> T {
        xs[self.idx(xs.len())]
    }
    pub fn u128(&mut self) -> u128 {
        let hi = self.u64() as u128;
        let lo = self.u64() as u128;
        (hi << 64) | lo
    }
    /// log-uniform: bit length uniform in 0..=maxbits, then a uniform value of that length
    pub fn bits_u128(&mut self, maxbits: u32) -> u128 {
        let b = self.below(maxbits as u64 + 1) as u32;
        let r = self.u128();
        if b == 0 {
            0
        } else {
            let top = 1u128 << (b - 1);
            top | (r & (top - 1))
        }
    }
    /// uniform in 0..=max (monotone)
    pub fn upto_u128(&mut self, max: u128) -> u128 {
        let r = self.u128();
        if max == u128::MAX {
            return r;
        }
        // floor(r * (max+1) / 2^128) with 256-bit intermediate
        mul_shift_128(r, max + 1)
    }
}

fn mul_shift_128(a: u128, b: u128) -> u128 {
    // high 128 bits of a*b
    let (a1, a0) = (a >> 64, a & 0xFFFF_FFFF_FFFF_FFFF);
    let (b1, b0) = (b >> 64, b & 0xFFFF_FFFF_FFFF_FFFF);
    let p00 = a0 * b0;
    let p01 = a0 * b1;
    let p10 = a1 * b0;
    let p11 = a1 * b1;
    let mid = (p00 >> 64) + (p01 & 0xFFFF_FFFF_FFFF_FFFF) + (p10 & 0xFFFF_FFFF_FFFF_FFFF);
    p11 + (p01 >> 64) + (p10 >> 64) + (mid >> 64)
}

pub fn fnv64(bytes: &[u8]) -> u64 {
    let mut h: u64 = 0xcbf29ce484222325;
    for &b in bytes {
        h ^= b as u64;
        h = h.wrapping_mul(0x100000001b3);
    }
    // final avalanche
    h ^= h >> 33;
    h = h.wrapping_mul(0xff51afd7ed558ccd);
    h ^= h >> 33;
    h
}
pub fn hash_words(ws: &[u128]) -> u64 {
    let mut b = Vec::with_capacity(ws.len() * 16);
    for w in ws {
        b.extend_from_slice(&w.to_le_bytes());
    }
    fnv64(&b)
}

#[derive(Debug, Clone)]
pub enum Verdict {
    Pass,
    /// matches a finding listed in KNOWN_FINDINGS.txt (id, what)
    Known(&'static str, String),
    Fail(String),
}

#[derive(Debug, Clone)]
pub struct CaseResult {
    pub verdict: Verdict,
    pub nontrivial: bool,
    /// hash of the canonical case encoding (distinctness)
    pub key: u64,
    /// histogram labels: generator class, outcome class ...
    pub classes: Vec<&'static str>,
    /// description of the case, filled only when asked for
    pub desc: Option<Value>,
}

impl CaseResult {
    pub fn pass(nontrivial: bool, key: u64, classes: Vec<&'static str>) -> CaseResult {
        CaseResult { verdict: Verdict::Pass, nontrivial, key, classes, desc: None }
    }
}

pub type RunFn = fn(&Tape, bool) -> CaseResult;
pub type DirectFn = fn(&Value) -> Result<CaseResult, String>;

#[derive(Clone)]
pub struct Suite {
    pub name: &'static str,
    pub about: &'static str,
    pub head_len: usize,
    pub op_len: usize,
    pub max_ops: usize,
    pub quick_cases: u64,
    pub thorough_cases: u64,
    pub run: RunFn,
    /// hand-written inputs (replays/seeds, KNOWN_FINDINGS examples) bypass the tape
    pub direct: Option<DirectFn>,
    /// histogram labels that must be populated for the run to count as non-vacuous
    pub must_hit: &'static [&'static str],
}

impl Suite {
    /// shrinking budget: cheap function-level cases can afford many iterations, worlds cannot
    pub fn shrink_iters(&self) -> u32 {
        if self.op_len == 0 && self.head_len <= 64 {
            20_000
        } else if self.name == "decimals_updates" || self.name == "pagination" || self.name == "caller_matrix" {
            400
        } else {
            2_500
        }
    }
}

#[derive(Default, Debug)]
pub struct SuiteStats {
    pub evaluations: u64,
    pub nontrivial: u64,
    pub distinct: HashSet<u64>,
    pub distinct_capped: bool,
    pub classes: BTreeMap<&'static str, u64>,
    pub known_hits: BTreeMap<&'static str, u64>,
    pub known_examples: BTreeMap<&'static str, String>,
    pub samples: Vec<Value>,
    pub sample_classes: HashSet<&'static str>,
}

const DISTINCT_CAP: usize = 3_000_000;
const MAX_SAMPLES: usize = 6;

impl SuiteStats {
    fn merge(&mut self, o: SuiteStats) {
        self.evaluations += o.evaluations;
        self.nontrivial += o.nontrivial;
        self.distinct_capped |= o.distinct_capped;
        for k in o.distinct {
            if self.distinct.len() < DISTINCT_CAP * 4 {
                self.distinct.insert(k);
            } else {
                self.distinct_capped = true;
            }
        }
        for (k, v) in o.classes {
            *self.classes.entry(k).or_default() += v;
        }
        for (k, v) in o.known_hits {
            *self.known_hits.entry(k).or_default() += v;
        }
        for (k, v) in o.known_examples {
            self.known_examples.entry(k).or_insert(v);
        }
        for s in o.samples {
            if self.samples.len() < MAX_SAMPLES * 2 {
                self.samples.push(s);
            }
        }
    }
}

pub struct Failure {
    pub suite: &'static str,
    pub worker: usize,
    pub message: String,
    pub tape: Tape,
    pub desc: Option<Value>,
}

pub enum WorkerEnd {
    Done,
    Fail(Failure),
    Internal(String),
}

fn seed_bytes(seed: u64, prop: &str, suite: &str, worker: usize) -> [u8; 32] {
    let mut out = [0u8; 32];
    for i in 0..4 {
        let mut b = vec![];
        b.extend_from_slice(&seed.to_le_bytes());
        b.extend_from_slice(prop.as_bytes());
        b.push(0);
        b.extend_from_slice(suite.as_bytes());
        b.push(0);
        b.extend_from_slice(&(worker as u64).to_le_bytes());
        b.push(i as u8);
        out[i * 8..i * 8 + 8].copy_from_slice(&fnv64(&b).to_le_bytes());
    }
    out
}

thread_local! {
    static LAST_PANIC: RefCell<String> = RefCell::new(String::new());
}

/// The code under test aborts by panicking, routinely.  Keep stderr quiet but remember the last
/// panic message + location per thread for diagnostics of *harness* panics.
pub fn install_quiet_panic_hook() {
    static ONCE: std::sync::Once = std::sync::Once::new();
    ONCE.call_once(|| {
        let verbose = std::env::var("HV_PANIC_VERBOSE").is_ok();
        std::panic::set_hook(Box::new(move |info| {
            let msg = format!("{}", info);
            if verbose {
                eprintln!("[panic] {}", msg);
            }
            LAST_PANIC.with(|l| *l.borrow_mut() = msg);
        }));
    });
}
pub fn last_panic() -> String {
    LAST_PANIC.with(|l| l.borrow().clone())
}

/// Run code under test; Err(message) if it aborted (panicked).
pub fn guarded<T>(f: impl FnOnce() -> T) -> Result<T, String> {
    match catch_unwind(AssertUnwindSafe(f)) {
        Ok(v) => Ok(v),
        Err(_) => Err(last_panic()),
    }
}

fn run_worker(
    prop: &str,
    suite: &Suite,
    seed: u64,
    worker: usize,
    cases: u64,
) -> (SuiteStats, WorkerEnd) {
    let stats = RefCell::new(SuiteStats::default());
    let failed = RefCell::new(None::<String>);
    let internal = RefCell::new(None::<String>);
    let cfg = Config {
        cases: cases as u32,
        failure_persistence: None,
        max_shrink_iters: suite.shrink_iters(),
        max_local_rejects: 1,
        max_global_rejects: 1,
        verbose: 0,
        ..Config::default()
    };
    let rng = TestRng::from_seed(RngAlgorithm::ChaCha, &seed_bytes(seed, prop, suite.name, worker));
    let mut runner = TestRunner::new_with_rng(cfg, rng);
    let (h, k, m) = (suite.head_len, suite.op_len, suite.max_ops);
    let strat = (vec(any::<u64>(), h..=h), vec(vec(any::<u64>(), k..=k), 0..=m))
        .prop_map(|(head, ops)| Tape { head, ops });
    let res = runner.run(&strat, |tape| {
        let shrinking = failed.borrow().is_some();
        let want_desc = {
            let s = stats.borrow();
            !shrinking && s.samples.len() < MAX_SAMPLES && (s.evaluations % 97 == 0 || s.evaluations < 3)
        };
        let r = match catch_unwind(AssertUnwindSafe(|| (suite.run)(&tape, want_desc))) {
            Ok(r) => r,
            Err(_) => {
                let m = format!("harness panic in suite {}: {}", suite.name, last_panic());
                if internal.borrow().is_none() {
                    *internal.borrow_mut() = Some(m.clone());
                }
                *failed.borrow_mut() = Some(m.clone());
                return Err(TestCaseError::fail(m));
            }
        };
        if !shrinking {
            let mut s = stats.borrow_mut();
            s.evaluations += 1;
            for c in &r.classes {
                *s.classes.entry(c).or_default() += 1;
            }
            if r.nontrivial {
                s.nontrivial += 1;
                if s.distinct.len() < DISTINCT_CAP {
                    s.distinct.insert(r.key);
                } else {
                    s.distinct_capped = true;
                }
                if let Some(d) = &r.desc {
                    if s.samples.len() < MAX_SAMPLES {
                        let mut d = d.clone();
                        if let Some(o) = d.as_object_mut() {
                            o.remove("concrete");
                        }
                        s.samples.push(d);
                    }
                }
            }
            if let Verdict::Known(id, what) = &r.verdict {
                *s.known_hits.entry(id).or_default() += 1;
                s.known_examples.entry(id).or_insert_with(|| what.clone());
            }
        }
        match r.verdict {
            Verdict::Fail(m) => {
                if !shrinking {
                    *failed.borrow_mut() = Some(m.clone());
                }
                Err(TestCaseError::fail(m))
            }
            _ => Ok(()),
        }
    });
    let stats = stats.into_inner();
    if let Some(m) = internal.into_inner() {
        return (stats, WorkerEnd::Internal(m));
    }
    match res {
        Ok(()) => (stats, WorkerEnd::Done),
        Err(TestError::Fail(reason, tape)) => {
            let r = catch_unwind(AssertUnwindSafe(|| (suite.run)(&tape, true))).ok();
            let desc = r.and_then(|r| r.desc);
            (
                stats,
                WorkerEnd::Fail(Failure {
                    suite: suite.name,
                    worker,
                    message: reason.message().to_string(),
                    tape,
                    desc,
                }),
            )
        }
        Err(TestError::Abort(reason)) => (stats, WorkerEnd::Internal(format!("proptest aborted: {}", reason.message()))),
    }
}

pub struct SuiteOutcome {
    pub stats: SuiteStats,
    pub failure: Option<Failure>,
    pub internal: Option<String>,
}

pub fn run_suite(prop: &str, suite: &Suite, seed: u64, cases: u64, workers: usize) -> SuiteOutcome {
    let per = (cases + workers as u64 - 1) / workers as u64;
    let results: Vec<(SuiteStats, WorkerEnd)> = std::thread::scope(|sc| {
        let hs: Vec<_> = (0..workers)
            .map(|w| {
                let suite = suite.clone();
                std::thread::Builder::new()
                    .stack_size(64 << 20)
                    .spawn_scoped(sc, move || run_worker(prop, &suite, seed, w, per))
                    .unwrap()
            })
            .collect();
        hs.into_iter().map(|h| h.join().expect("worker thread died")).collect()
    });
    let mut stats = SuiteStats::default();
    let mut failure = None;
    let mut internal = None;
    for (s, end) in results {
        stats.merge(s);
        match end {
            WorkerEnd::Done => {}
            WorkerEnd::Fail(f) => {
                if failure.is_none() {
                    failure = Some(f); // lowest worker index wins: deterministic
                }
            }
            WorkerEnd::Internal(m) => {
                if internal.is_none() {
                    internal = Some(m);
                }
            }
        }
    }
    SuiteOutcome { stats, failure, internal }
}

// ------------------------------------------------------------------------------------------------
// replay files

#[derive(Serialize, Deserialize, Debug, Clone)]
pub struct ReplayFile {
    pub property: String,
    pub suite: String,
    #[serde(default, skip_serializing_if = "Option::is_none")]
    pub tape: Option<Tape>,
    #[serde(default, skip_serializing_if = "Option::is_none")]
    pub direct: Option<Value>,
    #[serde(default, skip_serializing_if = "Option::is_none")]
    pub message: Option<String>,
    #[serde(default, skip_serializing_if = "Option::is_none")]
    pub case: Option<Value>,
    #[serde(default, skip_serializing_if = "Option::is_none")]
    pub note: Option<String>,
    /// "pass" (default) | "known:<ID>" | "fail" (only for mutant demonstrations, never in seeds/)
    #[serde(default, skip_serializing_if = "Option::is_none")]
    pub expect: Option<String>,
}

pub fn run_replay(suite: &Suite, rf: &ReplayFile) -> Result<CaseResult, String> {
    // the concrete form is preferred: it does not depend on the generator's decoding of a tape
    if let (Some(d), Some(f)) = (&rf.direct, suite.direct) {
        return guarded(|| f(d)).map_err(|e| format!("harness panic: {e}"))?;
    }
    if let Some(t) = &rf.tape {
        return guarded(|| (suite.run)(t, true)).map_err(|e| format!("harness panic: {e}"));
    }
    Err("replay file has neither tape nor direct".into())
}

pub fn verif_root() -> std::path::PathBuf {
    std::env::var("HV_ROOT").map(Into::into).unwrap_or_else(|_| "/verif".into())
}

pub fn write_found(prop: &str, f: &Failure) -> std::path::PathBuf {
    let rf = ReplayFile {
        property: prop.to_string(),
        suite: f.suite.to_string(),
        tape: Some(f.tape.clone()),
        direct: f.desc.as_ref().and_then(|d| d.get("concrete").cloned()),
        message: Some(f.message.clone()),
        case: f.desc.as_ref().map(|d| {
            let mut d = d.clone();
            if let Some(o) = d.as_object_mut() {
                o.remove("concrete");
            }
            d
        }),
        note: Some(format!("shrunk by proptest (worker {})", f.worker)),
        expect: None,
    };
    let h = fnv64(&f.tape.to_bytes());
    let dir = verif_root().join("replays/found");
    let _ = std::fs::create_dir_all(&dir);
    let path = dir.join(format!("{}-{}-{:016x}.json", prop, f.suite, h));
    std::fs::write(&path, serde_json::to_string_pretty(&rf).unwrap()).expect("cannot write replay file");
    path
}

// ------------------------------------------------------------------------------------------------
// evidence

pub struct EvidenceInput<'a> {
    pub property: &'a str,
    pub tier: &'a str,
    pub seed: u64,
    pub rule: &'a str,
    pub assumptions: &'a [&'a str],
    pub suites: Vec<(&'a Suite, &'a SuiteStats, u64)>, // suite, stats, planned cases
    pub replay_cases: u64,
    pub replay_files: Vec<String>,
    pub violations: u64,
    pub known_lines: Vec<String>,
    pub wall_s: f64,
    pub extra: Value,
    pub exhaustive: bool,
}

pub fn write_evidence(e: &EvidenceInput) -> std::path::PathBuf {
    let mut evaluations = e.replay_cases;
    let mut distinct = 0u64;
    let mut samples: Vec<Value> = vec![];
    let mut per_suite = serde_json::Map::new();
    let mut capped = false;
    for (suite, st, planned) in &e.suites {
        evaluations += st.evaluations;
        distinct += st.distinct.len() as u64;
        capped |= st.distinct_capped;
        for s in st.samples.iter().take(3) {
            samples.push(json!({"suite": suite.name, "case": s}));
        }
        let missing: Vec<&str> = suite.must_hit.iter().copied().filter(|c| !st.classes.contains_key(c)).collect();
        per_suite.insert(
            suite.name.to_string(),
            json!({
                "about": suite.about,
                "planned_cases": planned,
                "evaluations": st.evaluations,
                "nontrivial": st.nontrivial,
                "distinct_nontrivial": st.distinct.len(),
                "class_histogram": st.classes,
                "known_finding_hits": st.known_hits,
                "required_classes_missing": missing,
            }),
        );
    }
    let mut coverage = json!({
        "evaluations": evaluations,
        "distinct_nontrivial": distinct,
        "rule": e.rule,
        "samples": samples,
        "suites": Value::Object(per_suite),
        "replay_tier_cases": e.replay_cases,
        "replay_files": e.replay_files,
        "distinct_count_is_lower_bound": capped,
        "known_findings_reported": e.known_lines,
    });
    if e.exhaustive {
        coverage["exhaustive"] = json!(true);
    }
    if let Value::Object(m) = &e.extra {
        for (k, v) in m {
            coverage[k] = v.clone();
        }
    }
    let ev = json!({
        "property_id": e.property,
        "tier": e.tier,
        "seed": e.seed,
        "level": "exploration",
        "coverage": coverage,
        "assumptions": e.assumptions,
        "wall_s": e.wall_s,
        "violations": e.violations,
    });
    let dir = verif_root().join("evidence");
    let _ = std::fs::create_dir_all(&dir);
    let path = dir.join(format!("{}.json", e.property));
    std::fs::write(&path, serde_json::to_string_pretty(&ev).unwrap()).expect("cannot write evidence");
    path
}

pub struct Timer(Instant);
impl Timer {
    pub fn start() -> Timer {
        Timer(Instant::now())
    }
    pub fn secs(&self) -> f64 {
        self.0.elapsed().as_secs_f64()
    }
}
