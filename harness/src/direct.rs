//! The only place where the harness calls *internal helper functions* of the repository by their
//! Rust signatures (as opposed to the contracts' message API, which every system-level suite uses).
//! Each shim sits behind its own cargo feature (all on by default).  If a change to the repository
//! alters one of these signatures the harness would no longer compile; `./check` then rebuilds with
//! that feature off: the function-level suite that needs the shim is not registered (and evidence
//! says so), every other suite - in particular the system-level suites of the same property -
//! still runs.  A property is therefore never left without a check because a helper was refactored.

use cosmwasm_std::{Decimal, MessageInfo, Uint128};
use haloswap::asset::{Asset, AssetInfoRaw, PairInfoRaw};
use haloswap::router::SwapOperation;

pub const FEATURES: [(&str, bool); 8] = [
    ("d-swap", cfg!(feature = "d-swap")),
    ("d-offer", cfg!(feature = "d-offer")),
    ("d-lp", cfg!(feature = "d-lp")),
    ("d-spread", cfg!(feature = "d-spread")),
    ("d-slip", cfg!(feature = "d-slip")),
    ("d-funds", cfg!(feature = "d-funds")),
    ("d-key", cfg!(feature = "d-key")),
    ("d-shape", cfg!(feature = "d-shape")),
];

pub fn disabled() -> Vec<&'static str> {
    FEATURES.iter().filter(|(_, on)| !*on).map(|(n, _)| *n).collect()
}

/// Ok(Ok(())) accepted, Ok(Err(is_guard_rejection, text)) returned an error
pub type GuardResult = Result<(), (bool, String)>;

#[cfg(feature = "d-swap")]
pub fn compute_swap(x: u128, y: u128, a: u128, rate: bignumber::Decimal256) -> (u128, u128, u128) {
    let (r, s, c) = haloswap::formulas::compute_swap(Uint128::new(x), Uint128::new(y), Uint128::new(a), rate);
    (r.u128(), s.u128(), c.u128())
}
#[cfg(not(feature = "d-swap"))]
pub fn compute_swap(_x: u128, _y: u128, _a: u128, _rate: bignumber::Decimal256) -> (u128, u128, u128) {
    unreachable!("d-swap disabled")
}

#[cfg(feature = "d-offer")]
pub fn compute_offer_amount(x: u128, y: u128, ask: u128, rate: bignumber::Decimal256) -> (u128, u128, u128) {
    let (r, s, c) = haloswap::formulas::compute_offer_amount(Uint128::new(x), Uint128::new(y), Uint128::new(ask), rate);
    (r.u128(), s.u128(), c.u128())
}
#[cfg(not(feature = "d-offer"))]
pub fn compute_offer_amount(_x: u128, _y: u128, _ask: u128, _rate: bignumber::Decimal256) -> (u128, u128, u128) {
    unreachable!("d-offer disabled")
}

#[cfg(feature = "d-lp")]
pub fn lp_share(info: &MessageInfo, pair: &PairInfoRaw, supply: u128, deposits: [u128; 2], pools: [Asset; 2]) -> Result<u128, String> {
    haloswap::formulas::calculate_lp_token_amount_to_user(info, pair, Uint128::new(supply), [Uint128::new(deposits[0]), Uint128::new(deposits[1])], pools)
        .map(|v| v.u128())
        .map_err(|e| e.to_string())
}
#[cfg(not(feature = "d-lp"))]
pub fn lp_share(_info: &MessageInfo, _pair: &PairInfoRaw, _supply: u128, _deposits: [u128; 2], _pools: [Asset; 2]) -> Result<u128, String> {
    unreachable!("d-lp disabled")
}

#[cfg(feature = "d-spread")]
pub fn max_spread(belief: Option<Decimal>, max_spread: Option<Decimal>, offer: Asset, ret: Asset, spread: u128, od: u8, rd: u8) -> GuardResult {
    match halo_pair::assert::assert_max_spread(belief, max_spread, offer, ret, Uint128::new(spread), od, rd) {
        Ok(()) => Ok(()),
        Err(haloswap::error::ContractError::MaxSpreadAssertion {}) => Err((true, "Max spread assertion".into())),
        Err(e) => Err((false, e.to_string())),
    }
}
#[cfg(not(feature = "d-spread"))]
pub fn max_spread(_b: Option<Decimal>, _m: Option<Decimal>, _o: Asset, _r: Asset, _s: u128, _od: u8, _rd: u8) -> GuardResult {
    unreachable!("d-spread disabled")
}

#[cfg(feature = "d-slip")]
pub fn slippage(tol: &Option<Decimal>, deposits: &[u128; 2], pools: &[Asset; 2]) -> GuardResult {
    match halo_pair::assert::assert_slippage_tolerance(tol, &[Uint128::new(deposits[0]), Uint128::new(deposits[1])], pools) {
        Ok(()) => Ok(()),
        Err(haloswap::error::ContractError::MaxSlippageAssertion {}) => Err((true, "Max slippage assertion".into())),
        Err(e) => Err((false, e.to_string())),
    }
}
#[cfg(not(feature = "d-slip"))]
pub fn slippage(_tol: &Option<Decimal>, _deposits: &[u128; 2], _pools: &[Asset; 2]) -> GuardResult {
    unreachable!("d-slip disabled")
}

#[cfg(feature = "d-funds")]
pub fn funds_check(asset: &Asset, info: &MessageInfo) -> bool {
    asset.assert_sent_native_token_balance(info).is_ok()
}
#[cfg(not(feature = "d-funds"))]
pub fn funds_check(_asset: &Asset, _info: &MessageInfo) -> bool {
    unreachable!("d-funds disabled")
}

#[cfg(feature = "d-key")]
pub fn pair_key(a: &[AssetInfoRaw; 2]) -> Vec<u8> {
    halo_factory::state::pair_key(a)
}
#[cfg(not(feature = "d-key"))]
pub fn pair_key(_a: &[AssetInfoRaw; 2]) -> Vec<u8> {
    unreachable!("d-key disabled")
}

#[cfg(feature = "d-shape")]
pub fn route_shape_ok(ops: &[SwapOperation]) -> bool {
    halo_router::assert::assert_operations(ops).is_ok()
}
#[cfg(not(feature = "d-shape"))]
pub fn route_shape_ok(_ops: &[SwapOperation]) -> bool {
    unreachable!("d-shape disabled")
}
