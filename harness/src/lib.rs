pub mod engine;
pub mod gen;
pub mod known;
pub mod nat;
pub mod props;
pub mod hist;
pub mod world;
pub mod sys;
