//! Hand-written arbitrary-precision natural numbers: the arithmetic oracle.
//!
//! Deliberately independent of `bigint::U256`, `cosmwasm_std::Uint256` and of any big-integer
//! crate.  Little-endian `u32` limbs, schoolbook multiplication, Knuth algorithm D division.
//! Values cross between the code under test and `Nat` only as raw `u64` limbs or decimal text.
//!
//! Validated on every replay tier by `selftest()`: against native u128 arithmetic, by algebraic
//! laws, and against golden vectors produced by python3 integers (harness/golden/).

use std::cmp::Ordering;
use std::fmt;

#[derive(Clone, PartialEq, Eq, Hash, Default)]
pub struct Nat(Vec<u32>); // little endian, no trailing zero limbs

impl Nat {
    pub fn zero() -> Nat {
        Nat(vec![])
    }
    pub fn one() -> Nat {
        Nat(vec![1])
    }
    fn trim(mut self) -> Nat {
        while let Some(&0) = self.0.last() {
            self.0.pop();
        }
        self
    }
    pub fn is_zero(&self) -> bool {
        self.0.is_empty()
    }
    pub fn from_u64(v: u64) -> Nat {
        Nat(vec![v as u32, (v >> 32) as u32]).trim()
    }
    pub fn from_u128(v: u128) -> Nat {
        Nat(vec![
            v as u32,
            (v >> 32) as u32,
            (v >> 64) as u32,
            (v >> 96) as u32,
        ])
        .trim()
    }
    /// little-endian u64 limbs (the raw representation of a 256-bit integer)
    pub fn from_limbs64(l: &[u64]) -> Nat {
        let mut v = Vec::with_capacity(l.len() * 2);
        for &x in l {
            v.push(x as u32);
            v.push((x >> 32) as u32);
        }
        Nat(v).trim()
    }
    /// Some([u64;4]) if the value fits 256 bits
    pub fn to_limbs256(&self) -> Option<[u64; 4]> {
        if self.0.len() > 8 {
            return None;
        }
        let mut out = [0u64; 4];
        for (i, &l) in self.0.iter().enumerate() {
            out[i / 2] |= (l as u64) << (32 * (i % 2));
        }
        Some(out)
    }
    pub fn to_u128(&self) -> Option<u128> {
        if self.0.len() > 4 {
            return None;
        }
        let mut out = 0u128;
        for (i, &l) in self.0.iter().enumerate() {
            out |= (l as u128) << (32 * i);
        }
        Some(out)
    }
    pub fn bits(&self) -> u32 {
        match self.0.last() {
            None => 0,
            Some(&top) => (self.0.len() as u32 - 1) * 32 + (32 - top.leading_zeros()),
        }
    }
    pub fn fits256(&self) -> bool {
        self.bits() <= 256
    }
    pub fn fits128(&self) -> bool {
        self.bits() <= 128
    }
    pub fn pow2(k: u32) -> Nat {
        let mut v = vec![0u32; (k / 32) as usize];
        v.push(1u32 << (k % 32));
        Nat(v)
    }
    pub fn pow10(k: u32) -> Nat {
        let mut r = Nat::one();
        for _ in 0..k {
            r = r.mul_small(10);
        }
        r
    }
    pub fn e18() -> Nat {
        Nat::from_u64(1_000_000_000_000_000_000)
    }

    pub fn add(&self, o: &Nat) -> Nat {
        let (a, b) = if self.0.len() >= o.0.len() {
            (&self.0, &o.0)
        } else {
            (&o.0, &self.0)
        };
        let mut out = Vec::with_capacity(a.len() + 1);
        let mut carry = 0u64;
        for i in 0..a.len() {
            let s = a[i] as u64 + if i < b.len() { b[i] as u64 } else { 0 } + carry;
            out.push(s as u32);
            carry = s >> 32;
        }
        if carry > 0 {
            out.push(carry as u32);
        }
        Nat(out)
    }
    /// None if the difference would be negative
    pub fn checked_sub(&self, o: &Nat) -> Option<Nat> {
        if self.cmp(o) == Ordering::Less {
            return None;
        }
        let mut out = Vec::with_capacity(self.0.len());
        let mut borrow = 0i64;
        for i in 0..self.0.len() {
            let mut d = self.0[i] as i64 - borrow - if i < o.0.len() { o.0[i] as i64 } else { 0 };
            if d < 0 {
                d += 1i64 << 32;
                borrow = 1;
            } else {
                borrow = 0;
            }
            out.push(d as u32);
        }
        debug_assert_eq!(borrow, 0);
        Some(Nat(out).trim())
    }
    /// panics if negative: use only where the caller has established self >= o
    pub fn sub(&self, o: &Nat) -> Nat {
        self.checked_sub(o).expect("Nat::sub underflow (oracle bug)")
    }
    pub fn mul_small(&self, m: u32) -> Nat {
        let mut out = Vec::with_capacity(self.0.len() + 1);
        let mut carry = 0u64;
        for &l in &self.0 {
            let p = l as u64 * m as u64 + carry;
            out.push(p as u32);
            carry = p >> 32;
        }
        if carry > 0 {
            out.push(carry as u32);
        }
        Nat(out).trim()
    }
    pub fn mul(&self, o: &Nat) -> Nat {
        if self.is_zero() || o.is_zero() {
            return Nat::zero();
        }
        let mut out = vec![0u32; self.0.len() + o.0.len()];
        for (i, &a) in self.0.iter().enumerate() {
            let mut carry = 0u64;
            for (j, &b) in o.0.iter().enumerate() {
                let cur = out[i + j] as u64 + a as u64 * b as u64 + carry;
                out[i + j] = cur as u32;
                carry = cur >> 32;
            }
            let mut k = i + o.0.len();
            while carry > 0 {
                let cur = out[k] as u64 + carry;
                out[k] = cur as u32;
                carry = cur >> 32;
                k += 1;
            }
        }
        Nat(out).trim()
    }
    fn divrem_small(&self, d: u32) -> (Nat, u32) {
        let mut out = vec![0u32; self.0.len()];
        let mut rem = 0u64;
        for i in (0..self.0.len()).rev() {
            let cur = (rem << 32) | self.0[i] as u64;
            out[i] = (cur / d as u64) as u32;
            rem = cur % d as u64;
        }
        (Nat(out).trim(), rem as u32)
    }
    fn shl_bits(&self, s: u32) -> Vec<u32> {
        // s < 32; returns len+1 limbs
        let mut out = Vec::with_capacity(self.0.len() + 1);
        let mut carry = 0u32;
        for &l in &self.0 {
            if s == 0 {
                out.push(l);
            } else {
                out.push((l << s) | carry);
                carry = l >> (32 - s);
            }
        }
        out.push(carry);
        out
    }
    /// (quotient, remainder); None when the divisor is zero
    pub fn divrem(&self, d: &Nat) -> Option<(Nat, Nat)> {
        if d.is_zero() {
            return None;
        }
        if self.cmp(d) == Ordering::Less {
            return Some((Nat::zero(), self.clone()));
        }
        if d.0.len() == 1 {
            let (q, r) = self.divrem_small(d.0[0]);
            return Some((q, Nat::from_u64(r as u64)));
        }
        // Knuth, TAOCP vol 2, 4.3.1 algorithm D
        let n = d.0.len();
        let m = self.0.len() - n;
        let s = d.0[n - 1].leading_zeros();
        let v = {
            let mut t = d.shl_bits(s);
            t.pop();
            t
        };
        let mut u = self.shl_bits(s); // len = m+n+1
        let mut q = vec![0u32; m + 1];
        let b: u64 = 1 << 32;
        for j in (0..=m).rev() {
            let num = ((u[j + n] as u64) << 32) | u[j + n - 1] as u64;
            let mut qhat = num / v[n - 1] as u64;
            let mut rhat = num % v[n - 1] as u64;
            while qhat >= b || qhat * v[n - 2] as u64 > ((rhat << 32) | u[j + n - 2] as u64) {
                qhat -= 1;
                rhat += v[n - 1] as u64;
                if rhat >= b {
                    break;
                }
            }
            // multiply and subtract
            let mut borrow: i64 = 0;
            let mut carry: u64 = 0;
            for i in 0..n {
                let p = qhat * v[i] as u64 + carry;
                carry = p >> 32;
                let t = u[i + j] as i64 - borrow - (p & 0xFFFF_FFFF) as i64;
                if t < 0 {
                    u[i + j] = (t + (1i64 << 32)) as u32;
                    borrow = 1;
                } else {
                    u[i + j] = t as u32;
                    borrow = 0;
                }
            }
            let t = u[j + n] as i64 - borrow - carry as i64;
            if t < 0 {
                u[j + n] = (t + (1i64 << 32)) as u32;
                // add back
                qhat -= 1;
                let mut c = 0u64;
                for i in 0..n {
                    let sum = u[i + j] as u64 + v[i] as u64 + c;
                    u[i + j] = sum as u32;
                    c = sum >> 32;
                }
                u[j + n] = (u[j + n] as u64 + c) as u32;
            } else {
                u[j + n] = t as u32;
            }
            q[j] = qhat as u32;
        }
        // remainder = u[0..n] >> s
        let mut r = vec![0u32; n];
        for i in 0..n {
            r[i] = if s == 0 {
                u[i]
            } else {
                (u[i] >> s) | (u[i + 1] << (32 - s))
            };
        }
        Some((Nat(q).trim(), Nat(r).trim()))
    }
    /// floor(self / d); panics on zero divisor (oracle callers check first)
    pub fn div(&self, d: &Nat) -> Nat {
        self.divrem(d).expect("Nat::div by zero (oracle bug)").0
    }
    pub fn rem(&self, d: &Nat) -> Nat {
        self.divrem(d).expect("Nat::rem by zero (oracle bug)").1
    }
    /// ceil(self / d)
    pub fn div_ceil(&self, d: &Nat) -> Nat {
        let (q, r) = self.divrem(d).expect("Nat::div_ceil by zero (oracle bug)");
        if r.is_zero() {
            q
        } else {
            q.add(&Nat::one())
        }
    }
    pub fn isqrt(&self) -> Nat {
        if self.is_zero() {
            return Nat::zero();
        }
        // Newton from above
        let mut x = Nat::pow2((self.bits() + 1) / 2 + 1);
        loop {
            let y = x.add(&self.div(&x)).divrem_small(2).0;
            if y.cmp(&x) != Ordering::Less {
                return x;
            }
            x = y;
        }
    }
    pub fn from_dec_str(s: &str) -> Option<Nat> {
        if s.is_empty() {
            return None;
        }
        let mut r = Nat::zero();
        for c in s.bytes() {
            if !c.is_ascii_digit() {
                return None;
            }
            r = r.mul_small(10).add(&Nat::from_u64((c - b'0') as u64));
        }
        Some(r)
    }
    pub fn to_dec_string(&self) -> String {
        if self.is_zero() {
            return "0".into();
        }
        let mut digits: Vec<String> = vec![];
        let mut cur = self.clone();
        while !cur.is_zero() {
            let (q, r) = cur.divrem_small(1_000_000_000);
            digits.push(format!("{}", r));
            cur = q;
        }
        let mut out = digits.pop().unwrap();
        while let Some(d) = digits.pop() {
            out.push_str(&format!("{:0>9}", d));
        }
        out
    }
    pub fn lt(&self, o: &Nat) -> bool {
        self.cmp(o) == Ordering::Less
    }
    pub fn le(&self, o: &Nat) -> bool {
        self.cmp(o) != Ordering::Greater
    }
    pub fn gt(&self, o: &Nat) -> bool {
        self.cmp(o) == Ordering::Greater
    }
    pub fn ge(&self, o: &Nat) -> bool {
        self.cmp(o) != Ordering::Less
    }
    pub fn max256() -> Nat {
        Nat(vec![u32::MAX; 8])
    }
    pub fn max128() -> Nat {
        Nat(vec![u32::MAX; 4])
    }
}

impl Ord for Nat {
    fn cmp(&self, o: &Nat) -> Ordering {
        if self.0.len() != o.0.len() {
            return self.0.len().cmp(&o.0.len());
        }
        for i in (0..self.0.len()).rev() {
            if self.0[i] != o.0[i] {
                return self.0[i].cmp(&o.0[i]);
            }
        }
        Ordering::Equal
    }
}
impl PartialOrd for Nat {
    fn partial_cmp(&self, o: &Nat) -> Option<Ordering> {
        Some(self.cmp(o))
    }
}
impl fmt::Display for Nat {
    fn fmt(&self, f: &mut fmt::Formatter) -> fmt::Result {
        f.write_str(&self.to_dec_string())
    }
}
impl fmt::Debug for Nat {
    fn fmt(&self, f: &mut fmt::Formatter) -> fmt::Result {
        f.write_str(&self.to_dec_string())
    }
}

pub fn n(v: u128) -> Nat {
    Nat::from_u128(v)
}

/// Self-validation of the oracle. Returns Err(description) on the first disagreement.
/// `golden` is the text of harness/golden/vectors.txt (lines: op a b expected [expected2]).
pub fn selftest(golden: &str) -> Result<usize, String> {
    let mut checks = 0usize;
    // 1. against native arithmetic on small operands (deterministic LCG; not part of any property)
    let mut s: u64 = 0x9E3779B97F4A7C15;
    let mut next = || {
        s = s.wrapping_mul(6364136223846793005).wrapping_add(1442695040888963407);
        s
    };
    for _ in 0..20000 {
        let a = (next() >> (next() % 64)) as u128;
        let b = (next() >> (next() % 64)) as u128;
        let (na, nb) = (n(a), n(b));
        if na.add(&nb) != n(a + b) {
            return Err(format!("add {a} {b}"));
        }
        if na.mul(&nb) != n(a * b) {
            return Err(format!("mul {a} {b}"));
        }
        if a >= b && na.sub(&nb) != n(a - b) {
            return Err(format!("sub {a} {b}"));
        }
        if a < b && na.checked_sub(&nb).is_some() {
            return Err(format!("sub-neg {a} {b}"));
        }
        if b != 0 {
            let (q, r) = na.divrem(&nb).unwrap();
            if q != n(a / b) || r != n(a % b) {
                return Err(format!("div {a} {b}"));
            }
        }
        if na.cmp(&nb) != a.cmp(&b) {
            return Err(format!("cmp {a} {b}"));
        }
        if na.to_dec_string() != a.to_string() {
            return Err(format!("str {a}"));
        }
        checks += 7;
    }
    // 2. algebraic laws on multi-limb operands
    for _ in 0..4000 {
        let la = 1 + (next() % 20) as usize;
        let lb = 1 + (next() % 20) as usize;
        let a = Nat::from_limbs64(&(0..la).map(|_| next()).collect::<Vec<_>>());
        let b = Nat::from_limbs64(&(0..lb).map(|_| next() >> (next() % 64)).collect::<Vec<_>>());
        if a.add(&b).sub(&b) != a {
            return Err(format!("law (a+b)-b {a} {b}"));
        }
        if !b.is_zero() {
            let (q, r) = a.divrem(&b).unwrap();
            if !(r < b) || q.mul(&b).add(&r) != a {
                return Err(format!("law a=qb+r {a} {b}"));
            }
            let p = a.mul(&b);
            let (q2, r2) = p.divrem(&b).unwrap();
            if q2 != a || !r2.is_zero() {
                return Err(format!("law (ab)/b {a} {b}"));
            }
        }
        let r = a.isqrt();
        let r1 = r.add(&Nat::one());
        if r.mul(&r) > a || r1.mul(&r1) <= a {
            return Err(format!("law isqrt {a}"));
        }
        if Nat::from_dec_str(&a.to_dec_string()).as_ref() != Some(&a) {
            return Err(format!("law str roundtrip {a}"));
        }
        checks += 5;
    }
    // 3. golden vectors from python3
    for (ln, line) in golden.lines().enumerate() {
        let line = line.trim();
        if line.is_empty() || line.starts_with('#') {
            continue;
        }
        let f: Vec<&str> = line.split_whitespace().collect();
        let p = |s: &str| Nat::from_dec_str(s).ok_or_else(|| format!("golden line {}: bad number", ln + 1));
        let ok = match f[0] {
            "add" => p(f[1])?.add(&p(f[2])?) == p(f[3])?,
            "sub" => p(f[1])?.sub(&p(f[2])?) == p(f[3])?,
            "mul" => p(f[1])?.mul(&p(f[2])?) == p(f[3])?,
            "divrem" => {
                let (q, r) = p(f[1])?.divrem(&p(f[2])?).unwrap();
                q == p(f[3])? && r == p(f[4])?
            }
            "isqrt" => p(f[1])?.isqrt() == p(f[2])?,
            "bits" => p(f[1])?.bits() as u128 == p(f[2])?.to_u128().unwrap(),
            other => return Err(format!("golden line {}: unknown op {}", ln + 1, other)),
        };
        if !ok {
            return Err(format!("golden line {} disagrees: {}", ln + 1, line));
        }
        checks += 1;
    }
    Ok(checks)
}
