//! Number generators shared by the function-level suites, and conversions between the oracle's
//! `Nat` and the types of the code under test (raw limbs only).

use crate::engine::Src;
use crate::nat::Nat;
use bigint::U256;
use bignumber::{Decimal256, Uint256};

pub fn to_u256(n: &Nat) -> U256 {
    U256(n.to_limbs256().expect("to_u256: value wider than 256 bits (generator bug)"))
}
pub fn from_u256(u: &U256) -> Nat {
    Nat::from_limbs64(&u.0)
}
pub fn to_uint(n: &Nat) -> Uint256 {
    Uint256(to_u256(n))
}
pub fn to_dec(n: &Nat) -> Decimal256 {
    Decimal256(to_u256(n))
}

/// names of the operand classes of `gen256`
pub const CLASS_NAMES: [&str; 6] = ["v:small", "v:loguniform", "v:pow2", "v:limbpattern", "v:pow10", "v:max-ish"];

/// A 256-bit value from the structured classes of DESIGN C08. Returns (value, class index).
pub fn gen256(s: &mut Src) -> (Nat, usize) {
    let cls = s.weighted(&[2, 6, 3, 3, 4, 1]);
    let v = match cls {
        0 => Nat::from_u64(s.below(11)),
        1 => {
            let bits = s.below(257) as u32;
            let limbs = [s.u64(), s.u64(), s.u64(), s.u64()];
            mask_bits(&limbs, bits)
        }
        2 => {
            let k = s.below(257) as u32;
            let d = s.below(3);
            let p = if k == 256 { Nat::max256().add(&Nat::one()) } else { Nat::pow2(k) };
            let r = match d {
                0 => p,
                1 => p.checked_sub(&Nat::one()).unwrap_or_else(Nat::zero),
                _ => p.add(&Nat::one()),
            };
            if r.fits256() { r } else { Nat::max256() }
        }
        3 => {
            let mut l = [0u64; 4];
            for x in l.iter_mut() {
                *x = match s.below(6) {
                    0 => 0,
                    1 => u64::MAX,
                    2 => 1,
                    3 => 1 << 63,
                    4 => 0xAAAA_AAAA_AAAA_AAAA,
                    _ => s.u64(),
                };
            }
            Nat::from_limbs64(&l)
        }
        4 => {
            let k = s.below(78) as u32;
            let p = Nat::pow10(k);
            let r = match s.below(5) {
                0 => p,
                1 => p.checked_sub(&Nat::one()).unwrap_or_else(Nat::zero),
                2 => p.add(&Nat::one()),
                3 => Nat::e18().mul(&Nat::from_u64(s.below(1000))),
                _ => Nat::e18().mul(&Nat::from_u128(s.bits_u128(128))).add(&Nat::from_u64(s.below(3))),
            };
            if r.fits256() { r } else { Nat::max256() }
        }
        _ => Nat::max256().sub(&Nat::from_u64(s.below(4))),
    };
    (v, cls)
}

pub fn mask_bits(limbs: &[u64; 4], bits: u32) -> Nat {
    if bits == 0 {
        return Nat::zero();
    }
    let n = Nat::from_limbs64(limbs);
    // keep low (bits-1) bits, set the top bit
    let top = Nat::pow2(bits - 1);
    n.rem(&top).add(&top)
}

pub const PARTNER_NAMES: [&str; 6] =
    ["p:independent", "p:equal-adjacent", "p:overflow-partner", "p:e18-overflow-partner", "p:zero", "p:divisor-ish"];

/// second operand, possibly built from the first (near-overflow partners, equal/adjacent, zero)
pub fn gen_partner(s: &mut Src, a: &Nat) -> (Nat, usize) {
    let cls = s.weighted(&[8, 2, 4, 3, 1, 2]);
    let max = Nat::max256();
    let adj = |v: Nat, s: &mut Src| -> Nat {
        let r = match s.below(3) {
            0 => v,
            1 => v.checked_sub(&Nat::one()).unwrap_or_else(Nat::zero),
            _ => v.add(&Nat::one()),
        };
        if r.fits256() { r } else { Nat::max256() }
    };
    let v = match cls {
        0 => gen256(s).0,
        1 => adj(a.clone(), s),
        2 => {
            // b = floor((2^256-1)/a) + {-1,0,1}: a*b straddles 2^256
            if a.is_zero() { max.clone() } else { adj(max.div(a), s) }
        }
        3 => {
            // a*b straddles 2^256 * 10^18 (results of decimal products straddle 2^256), or
            // a*10^18*?: b = floor((2^256-1) * 10^18 / a) clipped
            if a.is_zero() {
                max.clone()
            } else {
                let t = max.mul(&Nat::e18()).div(a);
                if t.fits256() { adj(t, s) } else { adj(max.div(&Nat::e18()).div(a), s) }
            }
        }
        4 => Nat::zero(),
        _ => {
            // a divisor with a chosen relation to a: a/k, a*k/10^18 ...
            let k = Nat::from_u128(s.bits_u128(70)).add(&Nat::one());
            match s.below(3) {
                0 => a.div(&k),
                1 => {
                    let t = a.mul(&Nat::e18()).div(&k);
                    if t.fits256() { t } else { a.div(&k) }
                }
                _ => k,
            }
        }
    };
    (v, cls)
}

/// 128-bit log-uniform with boundary enrichment
pub fn gen128(s: &mut Src) -> u128 {
    match s.weighted(&[10, 2, 2, 1]) {
        0 => s.bits_u128(128),
        1 => {
            let k = s.below(129) as u32;
            let p = if k == 128 { u128::MAX } else { 1u128 << k };
            match s.below(3) {
                0 => p,
                1 => p.saturating_sub(1),
                _ => p.saturating_add(1),
            }
        }
        2 => {
            let k = s.below(39) as u32;
            let p = 10u128.pow(k);
            match s.below(3) {
                0 => p,
                1 => p.saturating_sub(1),
                _ => p.saturating_add(1),
            }
        }
        _ => u128::MAX - s.below(3) as u128,
    }
}

pub const E18: u128 = 1_000_000_000_000_000_000;

/// commission-rate / tolerance style decimals in [0, 1] with up to 18 digits, as atomics
pub fn gen_rate_atomics(s: &mut Src) -> u128 {
    match s.weighted(&[3, 2, 2, 2, 2, 2, 2, 6, 3]) {
        0 => 3_000_000_000_000_000, // 0.003, the default
        1 => 0,
        2 => 1,
        3 => 30_000_000_000_000_000,
        4 => E18 / 2,
        5 => E18 - 1,
        6 => E18,
        7 => s.upto_u128(E18),
        _ => {
            // few significant digits: d * 10^k
            let k = s.below(18) as u32;
            let d = s.below(1000) as u128;
            (d * 10u128.pow(k)).min(E18)
        }
    }
}
