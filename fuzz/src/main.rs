//! Coverage-guided second driver (libFuzzer on the STABLE toolchain via SanitizerCoverage codegen
//! flags, see DESIGN.md 2.5).  One generic target: the input bytes are a choice tape for the suite
//! selected with HV_FUZZ_PROP / HV_FUZZ_SUITE; the semantic oracle is the suite's own check
//! function, i.e. exactly what proptest drives.  A failing input is written as a replay file
//! (replays/found/) and the process aborts so that libFuzzer keeps the artifact.
#![no_main]

use hv::engine::*;
use libfuzzer_sys::fuzz_target;
use std::sync::OnceLock;

struct Sel {
    prop: String,
    suite: Suite,
}
static SEL: OnceLock<Sel> = OnceLock::new();

fn sel() -> &'static Sel {
    SEL.get_or_init(|| {
        let prop = std::env::var("HV_FUZZ_PROP").expect("HV_FUZZ_PROP not set");
        let sname = std::env::var("HV_FUZZ_SUITE").expect("HV_FUZZ_SUITE not set");
        let p = hv::props::get(&prop).expect("unknown property");
        let suite = p.suites.into_iter().find(|s| s.name == sname).expect("unknown suite");
        Sel { prop, suite }
    })
}

fuzz_target!(|data: &[u8]| {
    // libfuzzer-sys installs a hook that aborts on ANY panic; the code under test aborts by
    // panicking routinely, so replace it (once) with the harness's quiet hook
    install_quiet_panic_hook();
    let s = sel();
    let tape = Tape::from_bytes(data, s.suite.head_len, s.suite.op_len, s.suite.max_ops);
    let r = std::panic::catch_unwind(std::panic::AssertUnwindSafe(|| (s.suite.run)(&tape, false)));
    match r {
        Ok(r) => {
            if let Verdict::Fail(m) = r.verdict {
                let desc = std::panic::catch_unwind(std::panic::AssertUnwindSafe(|| (s.suite.run)(&tape, true))).ok().and_then(|r| r.desc);
                let f = Failure { suite: s.suite.name, worker: 0, message: m.clone(), tape, desc };
                let path = write_found(&s.prop, &f);
                eprintln!("HVFUZZ-FAILURE property={} suite={} replay={} :: {}", s.prop, s.suite.name, path.display(), m);
                std::process::abort();
            }
        }
        Err(_) => {
            eprintln!("HVFUZZ-INTERNAL harness panic: {}", last_panic());
            // exit code 2 = infrastructure, never a violation
            std::process::exit(2);
        }
    }
});
