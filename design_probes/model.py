import random
E=10**18; M256=2**256; M128=2**128
class Abort(Exception): pass
def chk(v):
    if v>=M256 or v<0: raise Abort()
    return v
def from_ratio(n,d):
    if d==0: raise Abort()
    return chk(n*E)//d
def compute_swap(x,y,a,C):
    cp=chk(x*y)
    D=chk(y*E) - from_ratio(cp, chk(x+a))
    if D<0: raise Abort()
    g=D//E          # Decimal*Uint(1) -> multiply_ratio(D,E) ; 1*D fits
    if D==0: g=0
    t=from_ratio(chk(y*a), x)
    tot = t//E if t!=0 else 0
    if tot<g: raise Abort()
    spread=tot-g
    comm = 0 if (g==0 or C==0) else chk(g*C)//E
    n=g-comm
    for v in (n,spread,comm):
        if v>=M128: raise Abort()
    return n,spread,comm

def rnd_bits(maxbits=128):
    b=random.randint(1,maxbits); return random.randint(1<<(b-1),(1<<b)-1)
RATES=[0,1,3*10**15,3*10**16,5*10**17,E-1,E]
def rate():
    return random.choice(RATES) if random.random()<0.6 else random.randint(0,E)

def window_case():
    s=random.randint(E+1, 3*10**29)
    amax=max(1,s//E)
    a=random.randint(1,amax)
    k=random.randint(1,5)
    d=(k*s)%a or a
    y=(k*s-d)//a
    x=s-a
    return x,y,a

def c06(x,y,a,C,n,sp,cm):
    G=y*a; s=x+a
    ok = (n-1)*s*E < G*(E-C) < (n+1)*s*E
    ok2 = cm == (C*(n+cm))//E
    ok3 = n+cm+sp == (a*y)//x
    return ok,ok2,ok3
def c01(x,y,a,n): return n*(x+a) <= y*a
def kf(x,y,a,n,cm):
    G=y*a; s=x+a; r=G%s
    return r>0 and (s-r)*E < s and n+cm == G//s+1

random.seed(1)
stats=dict(ret=0,abort=0,c01viol=0,c01_kf=0,c06bad=0,mono_bad=0,window=0,window_viol=0)
for i in range(400000):
    if i%4==0:
        x,y,a=window_case(); stats['window']+=1; w=True
    else:
        x,y,a=rnd_bits(),rnd_bits(),rnd_bits(); w=False
        if random.random()<0.3:  # residue classes
            s=x+a; 
    C=rate()
    try:
        n,sp,cm=compute_swap(x,y,a,C)
    except Abort:
        stats['abort']+=1; continue
    stats['ret']+=1
    if not c01(x,y,a,n):
        stats['c01viol']+=1
        if w: stats['window_viol']+=1
        if kf(x,y,a,n,cm): stats['c01_kf']+=1
        else: print("UNEXPLAINED C01", x,y,a,C,n,cm)
    r=c06(x,y,a,C,n,sp,cm)
    if not all(r): stats['c06bad']+=1; print("C06 bad",r,x,y,a,C,n,sp,cm)
    # monotone
    a2=a+random.choice([1,2,rnd_bits(64)])
    try:
        n2,_,_=compute_swap(x,y,a2,C)
        if n2<n: stats['mono_bad']+=1; print("MONO", x,y,a,a2,C,n,n2)
    except Abort: pass
print(stats)
