import random
from model import *
# ---- assert_max_spread model (returns 'ok' | 'maxspread' | 'other')
def u_div_dec(u, d):   # Uint256 / Decimal256
    if d==0: raise Abort()
    if u==0: return 0
    return chk(u*E)//d
def max_spread(P, Sa, offer, ret, spread, od, rd):
    try:
        if od>rd:
            k=10**(od-rd); O=offer; R=ret*k; SPR=spread*k
            if R>=M128 or SPR>=M128: return 'other'
        elif od<rd:
            k=10**(rd-od); O=offer*k; R=ret; SPR=spread
            if O>=M128: return 'other'
        else: O,R,SPR=offer,ret,spread
        if Sa is not None and P is not None:
            Ex=u_div_dec(O,P)
            sp = Ex-R if Ex>R else 0
            if R<Ex and from_ratio(sp,Ex)>Sa: return 'maxspread'
        elif Sa is not None:
            if from_ratio(SPR, R+SPR)>Sa: return 'maxspread'
        return 'ok'
    except Abort:
        return 'other'
def norm(offer,ret,spread,od,rd):
    return offer*10**max(0,rd-od), ret*10**max(0,od-rd), spread*10**max(0,od-rd)
def oracle_ms(P,Sa,offer,ret,spread,od,rd,verdict):
    O,R,SP=norm(offer,ret,spread,od,rd)
    if P is not None and Sa is not None:
        if P==0: return True
        if verdict=='ok':
            if O*E>P and Sa<E:
                return R*P*E > (O*E-P)*(E-Sa-1)
            return True
        if verdict=='maxspread':
            return R*P*E < O*E*(E-Sa)
        return True
    if Sa is not None:
        if R+SP==0: return True
        if verdict=='ok': return SP*E < (Sa+1)*(R+SP)
        if verdict=='maxspread': return SP*E > Sa*(R+SP)
    return True
def dec():
    r=random.random()
    if r<0.15: return random.choice([0,1,E,E-1,E+1,10**16,5*10**17,2*E])
    if r<0.6: return random.randint(0,E)
    return rnd_bits(100)
random.seed(2)
st=dict(ok=0,maxspread=0,other=0,bad=0,near=0)
for i in range(400000):
    od,rd=random.randint(0,18),random.randint(0,18)
    mode=random.choice(['both','both','s','p','none'])
    P = dec() if mode in('both','p') else None
    Sa= (random.randint(0,E) if random.random()<0.8 else dec()) if mode in('both','s') else None
    offer=rnd_bits(110); spread=rnd_bits(100) if random.random()<0.7 else 0
    if mode=='both' and P and random.random()<0.6:
        # near-limit: ret ~ E'(1-s)
        O,_,_=norm(offer,0,0,od,rd)
        Ex=O*E//P
        tgt=Ex*(E-min(Sa,E))//E
        k=10**max(0,od-rd)
        ret=max(0,tgt//k+random.randint(-2,2)); st['near']+=1
    elif mode=='s' and random.random()<0.6:
        ret=rnd_bits(100)
        # spread/(ret+spread) ~ s  => spread = s*ret/(1-s)
        if Sa<E: spread=max(0,Sa*ret//(E-Sa)+random.randint(-2,2))
    else:
        ret=rnd_bits(110) if random.random()<0.9 else 0
    if ret>=M128 or spread>=M128 or offer>=M128: continue
    v=max_spread(P,Sa,offer,ret,spread,od,rd)
    st[v]+=1
    if not oracle_ms(P,Sa,offer,ret,spread,od,rd,v):
        st['bad']+=1; print("MS BAD",P,Sa,offer,ret,spread,od,rd,v)
print('max_spread',st)

# ---- slippage model
def dmul(a,b): return chk(a*b)//E
def slippage(T_atoms, d, r):  # T_atoms = tolerance atomics (Decimal)
    try:
        if T_atoms>E: return 'err'
        om=E-T_atoms
        def drop(a,b): return dmul(from_ratio(a,b), om)
        if drop(d[0],d[1])>from_ratio(r[0],r[1]) or drop(d[1],d[0])>from_ratio(r[1],r[0]): return 'maxslip'
        return 'ok'
    except Abort: return 'other'
def oracle_sl(Ta,d,r,v):
    if Ta>E: return v=='err'
    T=E-Ta
    d0,d1=d; r0,r1=r
    if v=='ok':
        return d0*T*r1 < (r0*E+2*r1)*d1 and d1*T*r0 < (r1*E+2*r0)*d0
    if v=='maxslip':
        a = d0*T*r1 <= (r0*E - r1)*d1     # (d0/d1)(1-t) <= r0/r1 - 1e-18
        b = d1*T*r0 <= (r1*E - r0)*d0
        return not (a and b)
    return True
random.seed(3)
st=dict(ok=0,maxslip=0,other=0,err=0,bad=0)
for i in range(400000):
    Ta = random.choice([0,1,E,E+1,10**16]) if random.random()<0.2 else random.randint(0,E)
    r=(rnd_bits(120),rnd_bits(120))
    d1=rnd_bits(120)
    if random.random()<0.7 and Ta<E:
        d0=max(0, r[0]*d1*E//(r[1]*(E-Ta)) + random.randint(-2,2))
    else: d0=rnd_bits(120)
    if random.random()<0.03: d0=0
    if d0>=M128: continue
    d=(d0,d1)
    if random.random()<0.5: d=(d1,d0); r=(r[1],r[0])
    v=slippage(Ta,d,r); st[v]+=1
    if not oracle_sl(Ta,d,r,v): st['bad']+=1; print("SL BAD",Ta,d,r,v)
print('slippage',st)
