import random
from fractions import Fraction as F
from model import *
random.seed(5)
# C04 withdraw
bad=0; nz=0
for i in range(300000):
    S=rnd_bits(120); a=random.randint(1,S-1) if S>1 else 1
    if a>=S: continue
    r=rnd_bits(125)
    ratio=a*E//S
    x=r*ratio//E
    up = x*S <= r*a
    lo = (x+1)*S*E + r*S > r*a*E
    if not (up and lo): bad+=1; print("C04 bad",r,a,S,x)
    # C20: entitlement >= r/1e18+2  => x>=1
    if r*a*E >= (r+2*E)*S:
        nz+=1
        if x<1: print("C20 bad",r,a,S,x)
print("withdraw bad",bad,"c20 precond cases",nz)
# C05 provide
bad=0
for i in range(300000):
    S=rnd_bits(110); r0,r1=rnd_bits(110),rnd_bits(110); d0,d1=rnd_bits(110),rnd_bits(110)
    m=min(d0*S//r0, d1*S//r1)
    if m>=M128: continue
    c1 = m*r0<=d0*S and m*r1<=d1*S
    c2 = (m+1)*r0>d0*S or (m+1)*r1>d1*S
    if not(c1 and c2): bad+=1
print("provide bad",bad)
# C12b reverse simulation
def compute_offer(x,y,ask,C):
    cp=chk(x*y)
    omc=E-C
    if omc<0 or omc==0: raise Abort()
    inv=chk(E*E)//omc
    bc = 0 if (ask==0 or inv==0) else chk(ask*inv)//E
    if y-bc<0: raise Abort()
    Dp=y-bc
    if Dp==0: raise Abort()
    q=chk(1*cp)//Dp
    if q-x<0: raise Abort()
    off=q-x
    if off>=M128: raise Abort()
    return off
bad=0; n=0; skip=0; ab=0
for i in range(300000):
    x=rnd_bits(96); y=rnd_bits(96); C=rate()
    ask=random.randint(1,y) if random.random()<0.8 else rnd_bits(96)
    if random.random()<0.15 and C<E: ask=max(1, y*(E-C)//E + random.randint(-2,2))
    try: off=compute_offer(x,y,ask,C)
    except Abort: ab+=1; continue
    if C==E: continue
    D=F(y)-F(ask*E,E-C)
    if D<=0: skip+=1; continue
    Fv=F(x*y)/D - x
    eps=F(ask,E)+1
    B=F(x*y)*eps/(D*(D+eps))+1
    n+=1
    if not (off<=Fv and off>=Fv-B): bad+=1; print("C12b bad",x,y,ask,C,off,float(Fv),float(B))
print("reverse: judged",n,"bad",bad,"skipped D<=0",skip,"abort",ab)
