#!/usr/bin/env python3-vt
"""Validate MANIFEST.json and every evidence file against the given schemas (development aid)."""
import json, sys, glob, jsonschema
ok = True
m = json.load(open('/verif/MANIFEST.json'))
jsonschema.validate(m, json.load(open('/root/.vp/MANIFEST.schema.json')))
es = json.load(open('/root/.vp/EVIDENCE.schema.json'))
props = [json.loads(l)['id'] for l in open('/verif/properties.jsonl')]
claimed = [c['property_id'] for c in m['checks']]
na = [c['property_id'] for c in m.get('not_applicable', [])]
for p in props:
    if p not in claimed and p not in na:
        print("NOTE: property", p, "neither claimed nor not_applicable")
for c in m['checks']:
    try:
        e = json.load(open('/verif/' + c['evidence_file']))
        jsonschema.validate(e, es)
        cov = e['coverage']
        print(c['property_id'], e['tier'], 'evals', cov['evaluations'], 'distinct_nt', cov['distinct_nontrivial'], 'wall', round(e['wall_s'], 1), 'viol', e.get('violations'))
    except Exception as ex:
        ok = False
        print(c['property_id'], 'EVIDENCE PROBLEM', str(ex)[:200])
sys.exit(0 if ok else 1)
